"""Engine S: script generation, execution on implementation + model + spec, comparison."""
import base64, hashlib, json, os, random, shutil, subprocess, tempfile, time
from concurrent.futures import ThreadPoolExecutor

from . import build

XS_CONTEXT = "xs.context"


def xh(b):
    if isinstance(b, str):
        b = b.encode()
    return "x" + b.hex()


def unxh(s):
    return bytes.fromhex(s[1:])


def integrity(content: bytes) -> str:
    return "sha256-" + base64.b64encode(hashlib.sha256(content).digest()).decode()


TOPICS = ["a", "ab", "abc", "a.b", "a\x01", "\x01", "", "é", "\U0010ffff", "b", "a" * 300,
          "xs.contex", "xs.context2", "ab\x01", "a\xff".encode("latin1").decode("latin1")]
NUL_TOPICS = ["a\x00", "\x00", "a\x00b", "\x00a"]
METAS = [None, "{}", '{"a":1}', '{"b":{"c":[1,2,{"d":null}]},"a":"x"}', '{"k":"' + "v" * 200 + '"}',
         '{"n":18446744073709551615,"f":1.5,"s":"\\u00e9\\n"}']
CONTENTS = [None, b"hello", b"", b"\xff\xfe\x00", b"z" * 9000]


class Gen:
    """Mostly-valid store histories with adversarial topics/contexts/TTLs.
    Every random choice comes from one PRNG so a (seed, index) pair replays exactly."""

    def __init__(self, rnd, profile):
        self.r = rnd
        self.p = profile
        self.lines = []
        self.frames = []      # dicts: line, ctx, topic, ttl, kind
        self.ctxs = ["-"]     # context refs believed registered
        self.dead_ctxs = []   # refs believed unregistered again / never registered
        self.topics = list(self.p.get("topics", TOPICS))
        self.stats = {}
        # wild histories deliberately leave the theorems' hypotheses (known-finding classes:
        # id collisions on import, context 2^128-1, ...); they
        # validate the model there but the spec oracle stops at the first such op
        self.wild = profile.get("wild", False)

    def emit(self, line, kind):
        self.lines.append(line)
        self.stats[kind] = self.stats.get(kind, 0) + 1
        return len(self.lines) - 1

    def pick_ctx(self, for_write=True):
        r = self.r.random()
        if r < 0.08 and for_write:
            return self.r.choice(["#7"] + (["#ffffffffffffffffffffffffffffffff"] if self.wild else []) + self.dead_ctxs)
        return self.r.choice(self.ctxs)

    def pick_topic(self):
        if self.r.random() < self.p.get("p_nul", 0.04):
            return self.r.choice(NUL_TOPICS)
        k = self.p.get("n_topics", 5)
        return self.r.choice(self.topics[:k] if self.r.random() < 0.8 else self.topics)

    def pick_ttl(self):
        w = self.p.get("ttl_w", {"-": 3, "forever": 2, "ephemeral": 1, "time": 2, "head": 2})
        kinds = list(w)
        k = self.r.choices(kinds, [w[x] for x in kinds])[0]
        if k == "time":
            return "time:%x" % self.r.choice([0, 1, 1000, 60000, 3600000, 2 ** 64 - 1])
        if k == "head":
            return "head:%x" % self.r.choice([1, 1, 2, 2, 3, 10])
        return k

    def op_register(self):
        ln = self.emit(f"append - {xh(XS_CONTEXT)} - - {self.pick_ttl()}", "register")
        self.ctxs.append(f"@{ln}")
        self.frames.append(dict(line=ln, ctx="-", topic=XS_CONTEXT, ttl="forever", kind="ctx"))

    def op_append(self):
        ctx, topic, ttl = self.pick_ctx(), self.pick_topic(), self.pick_ttl()
        content = self.r.choice(CONTENTS) if self.r.random() < 0.3 else None
        meta = self.r.choice(METAS)
        ln = self.emit(
            f"append {ctx} {xh(topic)} {xh(content) if content is not None else '-'} "
            f"{xh(meta) if meta is not None else '-'} {ttl}", "append")
        if ttl != "ephemeral" and "\x00" not in topic and ctx in self.ctxs:
            self.frames.append(dict(line=ln, ctx=ctx, topic=topic, ttl=ttl, kind="append"))
        if topic not in self.topics and ("\x00" not in topic or self.wild):
            self.topics.append(topic)

    def op_lookalike(self):
        """a zero-context frame whose topic merely resembles xs.context: it registers nothing, now and after a reopen -
        its id is probed as a context from here on"""
        topic = self.r.choice(["xs.context2", "xs.contexts", "xs.context.note", "xs.contex", "xs.context "])
        ln = self.emit(f"append - {xh(topic)} - - {self.r.choice(['-', 'forever', 'head:2'])}", "lookalike")
        self.dead_ctxs.append(f"@{ln}")
        self.frames.append(dict(line=ln, ctx="-", topic=topic, ttl="-", kind="append"))

    def op_bad_ctx_append(self):
        self.emit(f"append {self.r.choice(['@%d' % self.r.randrange(max(1, len(self.lines)))] if self.lines else ['#9'])} "
                  f"{xh(XS_CONTEXT)} - - -", "ctxframe_nonzero")

    def op_import(self):
        r = self.r.random()
        ttl = self.pick_ttl() if self.r.random() < 0.7 else "-"
        meta = self.r.choice(METAS)
        hsh = xh(integrity(self.r.choice([b"hello", b"other"]))) if self.r.random() < 0.3 else "-"
        p_collide = self.p.get("p_import_collide", 0.1)
        p_reg = self.p.get("p_import_reg", 0.25)
        if self.r.random() < self.p.get("p_import_flip", 0.06) and (len(self.ctxs) > 1 or any(d.startswith("@") for d in self.dead_ctxs)):
            # an import that turns a stored non-registration into a registration of the same id, or the reverse: the id is a
            # context from exactly that moment / no longer one, before and after a reopen
            dead = [d for d in self.dead_ctxs if d.startswith("@")]
            if dead and (len(self.ctxs) <= 1 or self.r.random() < 0.6):
                d = self.r.choice(dead)
                ln = self.emit(f"import {d} - {xh(XS_CONTEXT)} - {xh(meta) if meta else '-'} {self.r.choice(['-', 'forever'])}", "import_becomes_reg")
                self.dead_ctxs.remove(d)
                self.ctxs.append(d)
            else:
                c = self.r.choice(self.ctxs[1:])
                into = self.r.choice([x for x in self.ctxs if x != c] + ["#7"])
                topic = self.r.choice([XS_CONTEXT, XS_CONTEXT, "a", self.pick_topic()]) if into != "-" else self.r.choice(["a", "xs.contexts"])
                if "\x00" in topic:
                    topic = "a"
                ln = self.emit(f"import {c} {into} {xh(topic)} - {xh(meta) if meta else '-'} -", "import_unregisters")
                self.ctxs.remove(c)
                self.dead_ctxs.append(c)
            return
        if r < p_reg:
            # import a registration frame (fresh small id, adjacent to an existing ctx, or arbitrary)
            base = self.r.choice(self.ctxs[1:]) if len(self.ctxs) > 1 and self.r.random() < 0.6 else None
            idx = f"{base}+1" if base and base.startswith("@") else "#%x" % self.r.randrange(1, 2 ** 20)
            kind = "import_reg"
            rttl = self.r.choice(["-", "forever", "head:1", ttl if self.wild or not ttl.startswith("time") else "-"])
            if self.r.random() < 0.25:
                # an xs.context-topic frame OUTSIDE the zero context registers nothing
                c = self.r.choice(self.ctxs[1:] + ["#7", "#%x" % self.r.randrange(1, 2 ** 64)])
                ln = self.emit(f"import {idx} {c} {xh(XS_CONTEXT)} - {xh(meta) if meta else '-'} {rttl}", "import_reg_nonzero")
                self.dead_ctxs.append(f"@{ln}")
                self.frames.append(dict(line=ln, ctx=c, topic=XS_CONTEXT, ttl=rttl, kind="import"))
                return
            ln = self.emit(f"import {idx} - {xh(XS_CONTEXT)} - {xh(meta) if meta else '-'} {rttl}", kind)
            self.ctxs.append(f"@{ln}")
            self.frames.append(dict(line=ln, ctx="-", topic=XS_CONTEXT, ttl=rttl, kind="ctx"))
            return
        if r < p_reg + p_collide and self.frames:
            # re-import an existing id: same or different topic/context (F7 when different)
            f = self.r.choice(self.frames)
            same = self.r.random() < 0.5     # another topic / context: inside the theorems since the F7 fix
            ctx = f["ctx"] if same else self.pick_ctx()
            topic = f["topic"] if same else self.pick_topic()
            ln = self.emit(f"import @{f['line']} {ctx} {xh(topic)} {hsh} {xh(meta) if meta else '-'} {ttl}",
                           "import_same" if same else "import_collide")
            return
        # plain import: fresh id somewhere in the past, adjacent to an existing one, or the far future
        rr = self.r.random()
        if rr < 0.5 or not self.frames:
            idx = "#%x" % self.r.randrange(1, 2 ** 40)
        elif rr < 0.85:
            f = self.r.choice(self.frames)
            idx = f"@{f['line']}{self.r.choice(['+1', '-1', '+2'])}"
        else:
            idx = "#%x" % self.r.choice([2 ** 127, 2 ** 128 - 2, 2 ** 128 - 1] + ([0] if self.wild else []))
        ctx = self.r.choice(self.ctxs + self.dead_ctxs + ["#7"]) if self.r.random() < 0.9 else "#%x" % self.r.randrange(1, 2 ** 64)
        if self.wild and self.r.random() < 0.1:
            ctx = "#ffffffffffffffffffffffffffffffff"
        topic = self.pick_topic()
        ln = self.emit(f"import {idx} {ctx} {xh(topic)} {hsh} {xh(meta) if meta else '-'} {ttl}", "import")
        if "\x00" not in topic:
            self.frames.append(dict(line=ln, ctx=ctx, topic=topic, ttl=ttl, kind="import"))

    def op_remove(self):
        if not self.frames or self.r.random() < 0.1:
            self.emit(f"remove #{self.r.randrange(1, 2 ** 30):x}", "remove_missing")
            return
        f = self.r.choice(self.frames)
        self.emit(f"remove @{f['line']}", "remove_ctx" if f["kind"] == "ctx" else "remove")
        if f["kind"] == "ctx" and self.r.random() < 0.8:
            ref = f"@{f['line']}"
            if ref in self.ctxs:
                self.ctxs.remove(ref)
                self.dead_ctxs.append(ref)

    def op_tick(self):
        timed = [f for f in self.frames if f["ttl"].startswith("time:")]
        if timed and self.r.random() < 0.7:
            f = self.r.choice(timed)
            ms = int(f["ttl"][5:], 16)
            self.emit(f"tickto @{f['line']} {ms} {self.r.choice([-1, 0, 1, 5])}", "tickto")
        else:
            self.emit(f"tick {self.r.choice([1, 500, 1000, 59999, 60000, 3600001])}", "tick")

    def op_gc(self):
        self.emit(self.r.choice(["gcstep", "gcstep", "drain"]), "gc")

    def op_lazyread(self):
        """a bounded read, then the collector, then lookups: which expired frames a read hands to the
        collector (only those it met before stopping) is observable through get/head afterwards"""
        kind = self.r.choice(["read", "read", "readsync"])
        last = "-"
        if self.frames and self.r.random() < 0.3:
            last = f"@{self.r.choice(self.frames)['line']}"
        ctx = self.r.choice(["-"] + self.ctxs)
        self.emit(f"{kind} {last} {self.r.choice(['1', '1', '2', '3'])} {ctx}", "lazyread")
        self.emit("drain", "gc")
        timed = [f for f in self.frames if f["ttl"].startswith("time:")] or self.frames
        for f in self.r.sample(timed, min(4, len(timed))):
            self.emit(f"get @{f['line']}", "probe_get")

    def op_headburst(self):
        """head:N, a collector run, frames of OTHER retention on the same (context, topic), head:N again: the second check must
        count every frame of the topic, not only the head-retention appends it has seen (a per-topic count cache would not)"""
        ctx, topic = self.r.choice(self.ctxs), self.r.choice(self.topics[:3])
        n = self.r.choice([1, 2, 2, 3])
        def ap(ttl):
            ln = self.emit(f"append {ctx} {xh(topic)} - - {ttl}", "append_burst")
            self.frames.append(dict(line=ln, ctx=ctx, topic=topic, ttl=ttl, kind="append"))
        ap("head:%x" % n)
        self.emit(self.r.choice(["gcstep", "drain"]), "gc")
        for _ in range(n + self.r.randrange(0, 3)):
            if self.r.random() < 0.2:
                ln = self.emit(f"import #{self.r.randrange(1, 2 ** 40):x} {ctx} {xh(topic)} - - -", "import")
                self.frames.append(dict(line=ln, ctx=ctx, topic=topic, ttl="-", kind="import"))
            else:
                ap(self.r.choice(["-", "forever", "time:36ee80", "head:a"]))
        ap("head:%x" % n)
        self.emit("drain", "gc")
        self.emit(f"readsync - - {ctx}", "probe_read")
        self.emit("rawdump", "rawdump")

    def op_rawdump(self):
        self.emit("rawdump", "rawdump")

    def op_reopen(self):
        self.emit("reopen", "reopen")

    def read_args(self):
        last = "-"
        if self.frames and self.r.random() < 0.6:
            f = self.r.choice(self.frames)
            last = f"@{f['line']}" + self.r.choice(["", "", "+1", "-1"])
        elif self.r.random() < 0.2:
            last = self.r.choice(["#0", "#ffffffffffffffffffffffffffffffff", "#1"])
        limit = self.r.choice(["-", "-", "0", "1", "2", "3", str(len(self.frames)), str(len(self.frames) + 1)])
        ctx = self.r.choice(["-"] + self.ctxs + self.dead_ctxs[:1])
        return last, limit, ctx

    def probes(self, full=False):
        n_reads = 6 if full else 2
        self.emit("readsync - - -", "probe_read")
        for c in (self.ctxs[:2] + self.ctxs[-3:]):
            self.emit(f"{self.r.choice(['readsync', 'read'])} - - {c}", "probe_read")
        for _ in range(n_reads):
            last, limit, ctx = self.read_args()
            self.emit(f"{self.r.choice(['readsync', 'read'])} {last} {limit} {ctx}", "probe_read")
        fs = self.frames if full else self.r.sample(self.frames, min(4, len(self.frames)))
        for f in fs[-30:]:
            self.emit(f"get @{f['line']}", "probe_get")
        pairs = {(f["topic"], f["ctx"]) for f in self.frames}
        pairs |= {(self.r.choice(self.topics), self.r.choice(self.ctxs)) for _ in range(3)}
        pairs = sorted(pairs)
        self.r.shuffle(pairs)
        for t, c in pairs[: (14 if full else 4)]:
            self.emit(f"head {xh(t)} {c}", "probe_head")
        # a NUL in the queried topic is inside the theorems since the F9 fix (head answers None, as the spec does)
        if self.r.random() < self.p.get("p_nul_head", 0.15):
            self.emit(f"head {xh(self.r.choice(NUL_TOPICS))} {self.r.choice(self.ctxs)}", "probe_head_nul")
        for c in (self.ctxs + self.dead_ctxs + ["#7"])[-6:]:
            self.emit(f"append {c} {xh('probe')} - - ephemeral", "probe_ctx")

    def history(self, n_ops):
        w = dict(self.p.get("op_w", {"register": 2, "append": 10, "import": 3, "remove": 3, "tick": 2,
                                     "gc": 3, "reopen": 1, "badctx": 0.3}))
        w.setdefault("lazyread", self.p.get("w_lazyread", 1))
        w.setdefault("lookalike", self.p.get("w_lookalike", 0.5))
        w.setdefault("rawdump", 1.5)
        w.setdefault("headburst", self.p.get("w_headburst", 0.4))
        fns = {"headburst": self.op_headburst, "rawdump": self.op_rawdump, "lookalike": self.op_lookalike, "register": self.op_register, "append": self.op_append, "import": self.op_import,
               "remove": self.op_remove, "tick": self.op_tick, "gc": self.op_gc,
               "reopen": self.op_reopen, "badctx": self.op_bad_ctx_append, "lazyread": self.op_lazyread}
        kinds = list(w)
        if self.r.random() < 0.8:
            self.op_register()
        if self.r.random() < self.p.get("p_ff_ctx", 0.25):
            # contexts with chosen ids: one ending in 0xFF and its neighbours (byte-wise range-end arithmetic)
            base = (self.r.randrange(1, 2 ** 100) << 8) | 0xFF
            for off in (0, 1, self.r.choice([0x80, 2, 0x100])):
                ln = self.emit(f"import #{base + off:x} - {xh(XS_CONTEXT)} - - -", "import_reg_ff")
                self.ctxs.append(f"@{ln}")
                self.frames.append(dict(line=ln, ctx="-", topic=XS_CONTEXT, ttl="-", kind="ctx"))
            for c in self.ctxs[-3:]:
                self.emit(f"append {c} {xh('a')} - - -", "append")
                self.frames.append(dict(line=len(self.lines) - 1, ctx=c, topic="a", ttl="-", kind="append"))
        for _ in range(n_ops):
            k = self.r.choices(kinds, [w[x] for x in kinds])[0]
            fns[k]()
            if self.r.random() < self.p.get("p_probe", 0.35):
                self.probes()
        self.probes(full=True)
        self.emit("rawdump", "rawdump")
        if self.p.get("final_drain", True):
            self.emit("drain", "gc")
            self.probes(full=True)
            self.emit("rawdump", "rawdump")
        return self.lines


def parse_trace(text):
    """-> list of (op_tokens, obs_line) in order; obs_line begins with '= '"""
    out, cur = [], None
    for line in text.splitlines():
        if line.startswith("OP "):
            cur = line[3:].split(" ")
        elif line.startswith("= ") and cur is not None:
            out.append((cur, line))
            cur = None
    return out


def parse_model(text):
    """-> list of (op_tokens, model_obs, spec_obs, hyp_ok)"""
    out, cur = [], None
    for line in text.splitlines():
        if line.startswith("OP "):
            cur = [line[3:].split(" "), None, None, True]
            out.append(cur)
        elif cur is not None and line.startswith("= "):
            cur[1] = line
        elif cur is not None and line.startswith("~ "):
            cur[2] = "= " + line[2:]
        elif cur is not None and line.startswith("! hyp"):
            cur[3] = False
    return out


def run_script(lines, keep_dir=None):
    """Run one script on the implementation and on model+spec. Returns dict."""
    wd = tempfile.mkdtemp(prefix="xsv-", dir=os.path.join(build.BUILD, "work"))
    try:
        sp = os.path.join(wd, "script.txt")
        open(sp, "w").write("\n".join(lines) + "\n")
        tr = os.path.join(wd, "trace.txt")
        t0 = time.time()
        p = subprocess.run([build.XSV, "seq", sp, os.path.join(wd, "w"), tr], stdout=subprocess.PIPE,
                           stderr=subprocess.PIPE, timeout=300)
        impl_s = time.time() - t0
        trace = open(tr).read() if os.path.exists(tr) else ""
        m = subprocess.run([build.XSMODEL, "seq"], input=trace.encode(), stdout=subprocess.PIPE,
                           stderr=subprocess.PIPE, timeout=300)
        return dict(rc=p.returncode, stderr=p.stderr.decode(errors="replace")[-2000:], trace=trace,
                    model_rc=m.returncode, model_err=m.stderr.decode(errors="replace")[-2000:],
                    model=m.stdout.decode(), impl_s=impl_s)
    finally:
        if keep_dir:
            shutil.copytree(wd, keep_dir, dirs_exist_ok=True)
        shutil.rmtree(wd, ignore_errors=True)


def compare(res, footprint=None):
    """Compare implementation observations to the concrete model (all ops) and to the abstract
    spec (while the refinement hypotheses hold). footprint: set of op names that matter for
    the calling property (None = all).
    -> dict(n_ops, corr=[...disagreements impl vs model], spec=[...impl vs spec], hyp_broken_at)"""
    impl = parse_trace(res["trace"])
    mod = parse_model(res["model"])
    out = dict(n_ops=len(impl), corr=[], spec=[], hyp_broken_at=None, incomplete=None)
    if res["rc"] != 0 or res["model_rc"] != 0 or len(impl) != len(mod):
        out["incomplete"] = dict(rc=res["rc"], model_rc=res["model_rc"], n_impl=len(impl), n_model=len(mod),
                                 stderr=res["stderr"], model_err=res["model_err"])
    hyp = True
    for k, ((op, obs), (mop, mobs, sobs, h)) in enumerate(zip(impl, mod)):
        if not h and hyp:
            hyp = False
            out["hyp_broken_at"] = k
        # (the raw partition dump is everybody's business: the lock-step invariant behind C01/C05-C09/C20)
        if footprint is not None and op[0] not in footprint and op[0] != "rawdump":
            continue
        if obs != mobs:
            out["corr"].append(dict(k=k, op=" ".join(op), impl=obs, model=mobs))
        if hyp and obs != sobs:
            out["spec"].append(dict(k=k, op=" ".join(op), impl=obs, spec=sobs))
    return out


def run_many(scripts, jobs=16):
    os.makedirs(os.path.join(build.BUILD, "work"), exist_ok=True)
    with ThreadPoolExecutor(max_workers=jobs) as ex:
        return list(ex.map(run_script, scripts))
