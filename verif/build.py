"""Build steps shared by every check: Coq development (full .vo), audit, extraction,
OCaml driver, Rust harness against the tree under test ($XS_REPO, default /repo)."""
import fcntl, hashlib, os, re, subprocess, sys, time

ROOT = os.path.dirname(os.path.dirname(os.path.abspath(__file__)))
COQ = os.path.join(ROOT, "coq")
BUILD = os.path.join(ROOT, "build")
XS_REPO = os.environ.get("XS_REPO", "/repo")
CARGO_TARGET = os.path.join(BUILD, "cargo")
XSV = os.path.join(CARGO_TARGET, "debug", "xsv")
XSMODEL = os.path.join(BUILD, "xsmodel")

ENV = dict(os.environ, CARGO_NET_OFFLINE="true", CARGO_TARGET_DIR=CARGO_TARGET)

FORBIDDEN = re.compile(
    r"\b(Admitted|admit|Axiom|Axioms|Parameter|Parameters|Conjecture|Conjectures|"
    r"Admit Obligations|bypass_check|Unset Guard Checking|Unset Positivity Checking|"
    r"Unset Universe Checking|type-in-type|impredicative-set|native_compute)\b")


class BuildError(Exception):
    def __init__(self, what, log):
        super().__init__(what)
        self.what, self.log = what, log


def sh(cmd, cwd=None, timeout=1800, env=None):
    p = subprocess.run(cmd, cwd=cwd, env=env or ENV, stdout=subprocess.PIPE,
                       stderr=subprocess.STDOUT, timeout=timeout, text=True)
    return p.returncode, p.stdout


class Lock:
    def __init__(self, name):
        os.makedirs(BUILD, exist_ok=True)
        self.f = open(os.path.join(BUILD, name + ".lock"), "w")

    def __enter__(self):
        fcntl.flock(self.f, fcntl.LOCK_EX)

    def __exit__(self, *a):
        fcntl.flock(self.f, fcntl.LOCK_UN)


def strip_comments(src):
    out, depth, i = [], 0, 0
    while i < len(src):
        if src.startswith("(*", i):
            depth += 1; i += 2
        elif src.startswith("*)", i) and depth:
            depth -= 1; i += 2
        else:
            if not depth:
                out.append(src[i])
            i += 1
    return "".join(out)


def coq_files():
    """the development = the .v files tracked by git (work-in-progress files that are not
    committed are not part of it); falls back to the directory listing outside a checkout"""
    try:
        rc, out = sh(["git", "ls-files", "coq/Model", "coq/Proofs", "coq/Props"], cwd=ROOT)
        fs = sorted(l[len("coq/"):] for l in out.splitlines() if l.endswith(".v"))
        fs = [f for f in fs if os.path.exists(os.path.join(COQ, f))]
        if rc == 0 and fs:
            order = {"Model": 0, "Proofs": 1, "Props": 2}
            return sorted(fs, key=lambda f: (order.get(f.split("/")[0], 3), f))
    except Exception:
        pass
    fs = []
    for d in ("Model", "Proofs", "Props"):
        p = os.path.join(COQ, d)
        if os.path.isdir(p):
            fs += [os.path.join(d, f) for f in sorted(os.listdir(p)) if f.endswith(".v")]
    return fs


def audit():
    """No Admitted/admit/Axiom/Parameter/... anywhere in the development (comments stripped).
    Section-less Variable/Hypothesis: also rejected (we use Context/Variable only inside sections)."""
    bad = []
    for rel in coq_files() + ["Extract.v"]:
        src = strip_comments(open(os.path.join(COQ, rel)).read())
        for m in FORBIDDEN.finditer(src):
            bad.append(f"{rel}: {m.group(0)}")
        depth = 0
        for line in src.splitlines():
            s = line.strip()
            if re.match(r"(Section|Module)\b", s) and ":=" not in s:
                depth += 1
            elif re.match(r"End\b", s):
                depth = max(0, depth - 1)
            elif re.match(r"(Variable|Variables|Hypothesis|Hypotheses|Context)\b", s) and depth == 0:
                bad.append(f"{rel}: section-less {s.split()[0]}")
    return bad


def coq_deps(vfile):
    """Transitive .v dependencies inside the development, via coqdep."""
    files = coq_files()
    rc, out = sh(["coqdep", "-Q", ".", "XS"] + files + ([vfile] if vfile not in files else []), cwd=COQ)
    deps = {}
    for line in out.splitlines():
        if ":" not in line:
            continue
        lhs, rhs = line.split(":", 1)
        tgt = [t for t in lhs.split() if t.endswith(".vo")]
        if not tgt:
            continue
        src = tgt[0][:-1]
        deps[src] = [d[:-1] for d in rhs.split() if d.endswith(".vo") and not d.startswith("/")]
    seen, todo = [], [vfile]
    while todo:
        v = todo.pop()
        if v in seen:
            continue
        seen.append(v)
        todo += deps.get(v, [])
    return seen


def count_obligations(vfiles):
    n = 0
    for rel in vfiles:
        src = strip_comments(open(os.path.join(COQ, rel)).read())
        n += len(re.findall(r"^\s*(Lemma|Theorem|Corollary|Example|Fact|Remark|Proposition)\b", src, re.M))
    return n


def build_coq(prop_file=None):
    """Full .vo build of the development (make, never -vos), then recompile the property
    file by hand to capture its Print Assumptions output. Returns dict."""
    t0 = time.time()
    with Lock("coq"):
        proj = ["-Q . XS"] + coq_files()
        projtxt = "\n".join(proj) + "\n"
        pj = os.path.join(COQ, "_CoqProject")
        if not os.path.exists(pj) or open(pj).read() != projtxt:
            open(pj, "w").write(projtxt)
        if (not os.path.exists(os.path.join(COQ, "Makefile"))
                or os.path.getmtime(os.path.join(COQ, "Makefile")) < os.path.getmtime(pj)):
            rc, out = sh(["coq_makefile", "-f", "_CoqProject", "-o", "Makefile"], cwd=COQ)
            if rc:
                raise BuildError("coq_makefile", out)
        targets = []
        if prop_file:
            targets = [v + "o" for v in coq_deps(prop_file) if v != prop_file]
        rc, out = sh(["timeout", "1500", "make", "-j16"] + targets, cwd=COQ, timeout=1600)
        res = {"make_rc": rc, "make_log": out[-4000:], "assumptions": {}, "closed": [], "open": {}}
        if rc:
            res["failed"] = "make"
            res["wall_s"] = time.time() - t0
            return res
        if prop_file:
            rc, out = sh(["timeout", "600", "coqc", "-Q", ".", "XS", prop_file], cwd=COQ, timeout=700)
            res["prop_rc"], res["prop_log"] = rc, out[-6000:]
            if rc:
                res["failed"] = "props"
            else:
                res.update(parse_assumptions(out))
        res["wall_s"] = time.time() - t0
        return res


def parse_assumptions(out):
    """coqc output of a Props file: after each `Print Assumptions thm.` either
    'Closed under the global context' or 'Axioms:' followed by lines 'name : type'."""
    closed, axioms = 0, []
    lines = out.splitlines()
    i = 0
    while i < len(lines):
        l = lines[i]
        if l.startswith("Closed under the global context"):
            closed += 1
        elif l.startswith("Axioms:"):
            i += 1
            while i < len(lines) and (lines[i].startswith(" ") or re.match(r"^[\w.']+\s*:", lines[i])):
                m = re.match(r"^([\w.']+)\s*:", lines[i])
                if m:
                    axioms.append(m.group(1))
                i += 1
            continue
        i += 1
    return {"n_closed": closed, "axioms": sorted(set(axioms))}


def src_hash(paths):
    h = hashlib.sha256()
    for p in paths:
        h.update(open(p, "rb").read())
    return h.hexdigest()


def build_model():
    """Extraction (ExtrOcamlBasic only) + ocamlfind ocamlopt of the driver."""
    with Lock("model"):
        ex = os.path.join(BUILD, "extract")
        os.makedirs(ex, exist_ok=True)
        srcs = [os.path.join(COQ, f) for f in coq_files() if f.startswith("Model/")]
        mls = ["driverlib.ml", "schedgen.ml", "driver.ml"]
        srcs += [os.path.join(COQ, "Extract.v")] + [os.path.join(ROOT, "ocaml", m) for m in mls]
        stamp = os.path.join(ex, "stamp")
        h = src_hash(srcs)
        if os.path.exists(stamp) and open(stamp).read() == h and os.path.exists(XSMODEL):
            return
        # the model files Extract.v requires may be stale when only one property's closure was rebuilt
        with Lock("coq"):
            deps = [v + "o" for v in coq_deps("Extract.v") if v != "Extract.v"]
            rc, out = sh(["timeout", "1500", "make", "-j16"] + deps, cwd=COQ, timeout=1600)
            if rc:
                raise BuildError("extraction (model files)", out)
            rc, out = sh(["timeout", "600", "coqc", "-Q", ".", "XS", "Extract.v"], cwd=COQ)
        if rc:
            raise BuildError("extraction", out)
        for m in mls:
            sh(["cp", os.path.join(ROOT, "ocaml", m), ex])
        rc, out = sh(["ocamlfind", "ocamlopt", "-O3", "-w", "-a", "xsmodel.mli", "xsmodel.ml"] + mls
                     + ["-o", XSMODEL], cwd=ex)
        if rc:
            raise BuildError("ocaml", out)
        open(stamp, "w").write(h)


def build_harness():
    """Rebuild the implementation side from the tree under test, hooks on."""
    with Lock("cargo"):
        hd = os.path.join(ROOT, "harness")
        tmpl = open(os.path.join(hd, "Cargo.toml.in")).read().replace("@XS_REPO@", XS_REPO)
        mf = os.path.join(hd, "Cargo.toml")
        if not os.path.exists(mf) or open(mf).read() != tmpl:
            open(mf, "w").write(tmpl)
        lock_src = open(os.path.join(XS_REPO, "Cargo.lock")).read()
        lk = os.path.join(hd, "Cargo.lock")
        # keep our own lock (it is the repo's lock plus the harness package) unless the repo's changed
        stamp = os.path.join(BUILD, "lock.stamp")
        hsh = hashlib.sha256(lock_src.encode()).hexdigest()
        if not os.path.exists(lk) or not os.path.exists(stamp) or open(stamp).read() != hsh:
            open(lk, "w").write(lock_src)
            os.makedirs(BUILD, exist_ok=True)
            open(stamp, "w").write(hsh)
        rc, out = sh(["cargo", "build", "--offline"], cwd=hd, timeout=3000)
        if rc:
            raise BuildError("cargo build (tree under test does not compile with hooks?)", out[-6000:])
        return out[-500:]


def coqchk(prop_file):
    """independent re-check of the property's compiled closure (thorough tier); -> dict(rc, axioms, wall_s)"""
    mod = "XS." + prop_file[:-2].replace("/", ".")
    t0 = time.time()
    rc, out = sh(["timeout", "1500", "coqchk", "-silent", "-o", "-Q", ".", "XS", mod], cwd=COQ, timeout=1600)
    axioms = []
    if "* Axioms:" in out:
        part = out.split("* Axioms:")[1].split("* ")[0]
        axioms = [l.strip() for l in part.splitlines() if l.strip() and l.strip() != "<none>"]
    return dict(rc=rc, axioms=axioms, wall_s=round(time.time() - t0, 1), tail=out[-600:])
