"""Engine K: crash a workload at every tracked system call (LD_PRELOAD shim), reopen the
survivor with a fresh process, observe it fully, and judge it against the model."""
import os, shutil, subprocess, tempfile, time
from concurrent.futures import ThreadPoolExecutor

from . import build
from . import seqengine as S

SHIM = os.path.join(build.BUILD, "crashshim.so")


def build_shim():
    src = os.path.join(build.ROOT, "shim", "crashshim.c")
    if not os.path.exists(SHIM) or os.path.getmtime(SHIM) < os.path.getmtime(src):
        rc, out = build.sh(["gcc", "-shared", "-fPIC", "-O1", "-o", SHIM, src, "-ldl", "-lpthread"])
        if rc:
            raise build.BuildError("crash shim", out)


def _run(script_lines, wd, env_extra, resume=False, trace_name="trace.txt"):
    sp = os.path.join(wd, "script.txt" if trace_name == "trace.txt" else "probe.txt")
    open(sp, "w").write("\n".join(script_lines) + "\n")
    tr = os.path.join(wd, trace_name)
    env = dict(os.environ, **env_extra)
    p = subprocess.run([build.XSV, "seq", sp, os.path.join(wd, "w"), tr], stdout=subprocess.PIPE,
                       stderr=subprocess.PIPE, timeout=300, env=env)
    return p.returncode, (open(tr).read() if os.path.exists(tr) else ""), p.stderr.decode(errors="replace")[-1500:]


def count_calls(script_lines):
    """-> (calls during Store::new of a fresh dir, total calls of the workload, per-call kinds)"""
    wd = tempfile.mkdtemp(prefix="cnt-", dir=os.path.join(build.BUILD, "work"))
    try:
        cf = os.path.join(wd, "count.txt")
        track = os.path.join(wd, "w", "store")
        rc, tr, err = _run([], wd, dict(LD_PRELOAD=SHIM, XSV_TRACK=track, XSV_COUNT_FILE=cf))
        n0 = len(open(cf).read().splitlines()) if os.path.exists(cf) else 0
        shutil.rmtree(os.path.join(wd, "w"), ignore_errors=True)
        for f in (cf, os.path.join(wd, "trace.txt")):
            if os.path.exists(f):
                os.remove(f)
        rc, tr, err = _run(script_lines, wd, dict(LD_PRELOAD=SHIM, XSV_TRACK=track, XSV_COUNT_FILE=cf))
        calls = [l.split() for l in open(cf).read().splitlines()] if os.path.exists(cf) else []
        return n0, len(calls), [c[1] + ":" + c[4] for c in calls], rc, err
    finally:
        shutil.rmtree(wd, ignore_errors=True)


def parse_crashed(trace):
    """acked ops (OP lines with obs) and the in-flight op (a PRE line without a following OP)"""
    acked, pre, now = [], None, None
    for line in trace.splitlines():
        if line.startswith("NEW "):
            now = line.split()[1]
        elif line.startswith("PRE "):
            pre = line[4:].split(" ")
        elif line.startswith("OP "):
            acked.append([line[3:].split(" "), None])
            pre = None
        elif line.startswith("= ") and acked and acked[-1][1] is None:
            acked[-1][1] = line
    if acked and acked[-1][1] is None:   # OP written but obs not: treat as in flight
        pre = acked.pop()[0]
    return now, acked, pre


def probe_script(acked, pre, topics, ctxs_extra=()):
    ids, ctxs = [], ["00000000000000000000000000000000"]
    pairs = set()
    for op, obs in acked + ([[pre, None]] if pre else []):
        if op[0] in ("append", "import"):
            if op[1] != "?" and set(op[1]) != {"0"}:
                ids.append(op[1])
            if op[2] not in ctxs:
                ctxs.append(op[2])
            pairs.add((op[3], op[2]))
            if op[3] == S.xh(S.XS_CONTEXT) and op[1] != "?" and op[1] not in ctxs:
                ctxs.append(op[1])
        elif op[0] == "remove":
            ids.append(op[1])
    lines = ["readsync - - -", "read - - -"]
    for c in ctxs:
        lines.append(f"readsync - - #{c}")
    for i in dict.fromkeys(ids):
        lines.append(f"get #{i}")
    for (t, c) in sorted(pairs):
        lines.append(f"head {t} #{c}")
    for c in ctxs:
        lines.append(f"append #{c} {S.xh('probe')} - - ephemeral")
    return lines


def frames_of(obs):
    return [f.split(",") for f in obs.split(" ")[3:]] if obs.startswith("= frames") else []


def consistent(probe_obs):
    """C04/C05: never a frame reachable one way but not another. probe_obs: list of (op, obs)."""
    bad = []
    allf = None
    for op, obs in probe_obs:
        if op[0] == "readsync" and op[1:] == ["-", "-", "-"]:
            allf = frames_of(obs)
    if allf is None:
        return ["no full read in probe"]
    by_id = {f[0]: f for f in allf}
    for op, obs in probe_obs:
        if obs.startswith("= panic"):
            bad.append(f"`{' '.join(op)[:80]}` panicked on the reopened store")
        if op[0] == "read" and op[1:] == ["-", "-", "-"]:
            if [f[0] for f in frames_of(obs)] != [f[0] for f in allf]:
                bad.append("streaming read and synchronous read disagree after reopen")
        if op[0] == "readsync" and op[3] != "-":
            want = [f[0] for f in allf if f[1] == op[3]]
            got = [f[0] for f in frames_of(obs)]
            if want != got:
                bad.append(f"context {op[3][-6:]}: by-context read {got} != frames of that context in the full read {want}")
        if op[0] == "get":
            if obs.startswith("= some"):
                f = obs[7:].split(",")
                if f[0] not in by_id:
                    bad.append(f"frame {f[0][-8:]} is returned by id but is not in the stream")
            elif obs.startswith("= none") and op[1] in by_id:
                bad.append(f"frame {op[1][-8:]} is in the stream but not found by id")
        if op[0] == "head":
            cands = [f for f in allf if f[2] == op[1] and f[1] == op[2]]
            want = max((f[0] for f in cands), default=None)
            got = obs[7:].split(",")[0] if obs.startswith("= some") else None
            if want != got:
                bad.append(f"head({op[1]},{op[2][-6:]}) = {got and got[-8:]} but the newest frame of that topic in the stream is {want and want[-8:]}")
    # frames with a hash must have their content (checked by harness 'cas' op if present)
    for op, obs in probe_obs:
        if op[0] == "cas" and not obs.startswith("= present") :
            bad.append(f"content {op[1][:24]} of a visible frame is not in CAS after the process kill")
        if op[0] == "cas" and obs.endswith("hash-mismatch"):
            bad.append(f"content stored under {op[1][:24]} does not hash to its name")
    return bad


def model_obs(now, ops_lines, probe_ops):
    """run the extracted model on acked ops + reopen + probes; returns list of model obs for the probes"""
    text = f"NEW {now}\n" + "".join(f"OP {' '.join(op)}\n" for op in ops_lines) + "OP reopen\n" \
           + "".join(f"OP {' '.join(op)}\n" for op in probe_ops)
    m = subprocess.run([build.XSMODEL, "seq"], input=text.encode(), stdout=subprocess.PIPE, stderr=subprocess.PIPE, timeout=120)
    parsed = S.parse_model(m.stdout.decode())
    return [x[1] for x in parsed[len(ops_lines) + 1:]]


def run_crash_point(script_lines, n, torn=0, power=False):
    """-> dict(kind, detail...) for one crash point"""
    wd = tempfile.mkdtemp(prefix="crs-", dir=os.path.join(build.BUILD, "work"))
    try:
        track = os.path.join(wd, "w", "store")
        env = dict(LD_PRELOAD=SHIM, XSV_TRACK=track, XSV_CRASH_AT=str(n))
        if torn:
            env["XSV_TORN"] = str(torn)
        if power:
            env["XSV_POWER"] = "1"
        rc, trace, err = _run(script_lines, wd, env)
        if rc == 0:
            return dict(kind="no-crash", n=n)
        if rc != 77:
            return dict(kind="harness-error", n=n, rc=rc, err=err)
        now, acked, pre = parse_crashed(trace)
        probes = probe_script(acked, pre, None)
        rc2, trace2, err2 = _run(probes, wd, {}, trace_name="probe_trace.txt")
        if rc2 != 0:
            return dict(kind="violation", n=n, torn=torn, power=power,
                        what=f"the store does not reopen after a crash at tracked call {n}: rc={rc2} {err2[-400:]}",
                        acked=[" ".join(a[0]) for a in acked], inflight=pre)
        pobs = S.parse_trace(trace2)
        # content of every visible frame that carries a hash must be in CAS (process-kill images)
        hashes = sorted({f[3] for op, obs in pobs if op[0] == "readsync" for f in frames_of(obs) if f[3] != "-"})
        cas_obs = []
        if hashes and not power:
            rc3, trace3, err3 = _run([f"cas {h}" for h in hashes], wd, {}, trace_name="cas_trace.txt")
            cas_obs = S.parse_trace(trace3)
        bad = consistent(pobs + cas_obs)
        if bad:
            return dict(kind="violation", n=n, torn=torn, power=power, what="; ".join(bad[:4]),
                        acked=[" ".join(a[0]) for a in acked], inflight=pre)
        # acknowledged ops reflected, in-flight op all-or-nothing: state == model(k) or model(k+1)
        probe_ops = [op for op, _ in pobs]
        impl = [obs for _, obs in pobs]
        acked_ops = [a[0] for a in acked]
        m_k = model_obs(now, acked_ops, probe_ops)
        if impl == m_k:
            return dict(kind="ok", n=n, state="k", inflight=bool(pre), n_acked=len(acked))
        if pre:
            cands = []
            if pre[0] == "append":
                known = {f[0] for obs in impl for f in frames_of(obs)}
                known_acked = {a[0][1] for a in acked if a[0][0] in ("append", "import")}
                extra = sorted(known - known_acked)
                cands = [[pre[0], e] + pre[2:] for e in extra]
            elif pre[0] in ("import", "remove"):
                cands = [pre]
            elif pre[0] in ("gcstep", "drain"):
                cands = [pre]
            for c in cands:
                m_k1 = model_obs(now, acked_ops + [c], probe_ops)
                if impl == m_k1:
                    return dict(kind="ok", n=n, state="k+1", inflight=True, n_acked=len(acked))
            if pre[0] in ("gcstep", "drain"):
                # a GC task removes several frames, each removal is its own atomic batch: any state
                # between k and k+1 is fine as long as it is consistent (checked above) and between
                m_k1 = model_obs(now, acked_ops + [pre], probe_ops)
                f_k = {f[0] for f in frames_of(m_k[0])}
                f_k1 = {f[0] for f in frames_of(m_k1[0])}
                f_i = {f[0] for f in frames_of(impl[0])}
                if f_k1 <= f_i <= f_k:
                    return dict(kind="ok", n=n, state="gc-between", inflight=True, n_acked=len(acked))
        first = next((i for i, (a, b) in enumerate(zip(impl, m_k)) if a != b), 0)
        return dict(kind="violation", n=n, torn=torn, power=power,
                    what=f"after a crash at tracked call {n} ({len(acked)} operations acknowledged, in flight: "
                         f"{' '.join(pre)[:80] if pre else 'none'}) the reopened store is neither the state before nor after "
                         f"the operation in flight: probe `{' '.join(probe_ops[first])[:90]}` returned `{impl[first][:200]}`, "
                         f"state-before says `{m_k[first][:200]}`",
                    acked=[" ".join(a[0]) for a in acked], inflight=pre)
    finally:
        shutil.rmtree(wd, ignore_errors=True)


def run_workload(script_lines, points=None, variants=("kill",), jobs=16):
    """crash at every tracked call of the workload (after the store is open)"""
    os.makedirs(os.path.join(build.BUILD, "work"), exist_ok=True)
    n0, total, kinds, rc, err = count_calls(script_lines)
    if rc != 0:
        return dict(error=f"count run failed rc={rc} {err[-300:]}", results=[], n0=n0, total=total)
    pts = list(range(n0 + 1, total + 1)) if points is None else points
    jobs_list = []
    for n in pts:
        for v in variants:
            if v == "kill":
                jobs_list.append((n, 0, False))
            elif v == "power":
                jobs_list.append((n, 0, True))
            elif v.startswith("torn") and n - 1 < len(kinds) and kinds[n - 1].startswith(("write", "pwrite")):
                jobs_list.append((n, int(v[4:5]), v.endswith("p")))
    with ThreadPoolExecutor(max_workers=jobs) as ex:
        res = list(ex.map(lambda j: run_crash_point(script_lines, j[0], torn=j[1], power=j[2]), jobs_list))
    return dict(n0=n0, total=total, results=res, kinds=kinds[n0:])
