"""./check Cxx --tier quick|thorough [--replay file]

Flow (DESIGN §2.4): audit + proof build -> rebuild implementation side from the tree
under test -> correspondence (impl vs extracted model) -> oracle (impl vs extracted
spec under the theorem's hypotheses) -> outcome + evidence."""
import argparse, hashlib, json, os, random, sys, time, traceback

from . import build
from .props import REGISTRY
from . import props as P

ROOT = build.ROOT


def load_known():
    p = os.path.join(ROOT, "known_findings.json")
    if not os.path.exists(p):
        return {"known": [], "fixed": []}
    return json.load(open(p))


class Ctx:
    def __init__(self, pid, tier, seed):
        self.pid, self.tier, self.seed = pid, tier, seed
        self.t0 = time.time()
        self.rnd = random.Random(seed * 1000003 + int(hashlib.sha256(pid.encode()).hexdigest()[:8], 16))
        self.violations = []       # dict(kind, what, replay_obj, no_input=bool)
        self.known_lines = []
        self.coverage = {}
        self.assumptions = []
        self.known = [k for k in load_known()["known"] if k["property"] == pid]

    def violation(self, what, replay_obj, no_input=False):
        self.violations.append(dict(what=what, replay=replay_obj, no_input=no_input))


def write_replay(ctx, v, n):
    d = os.path.join(ROOT, "replays")
    os.makedirs(d, exist_ok=True)
    p = os.path.join(d, f"{ctx.pid}-{ctx.seed}-{n}.json")
    obj = dict(property=ctx.pid, check_seed=ctx.seed, tier=ctx.tier, what=v["what"])
    obj.update(v["replay"])
    json.dump(obj, open(p, "w"), indent=1)
    return p


def main():
    ap = argparse.ArgumentParser()
    ap.add_argument("pid")
    ap.add_argument("--tier", default=os.environ.get("VERIF_TIER", "quick"))
    ap.add_argument("--replay")
    a = ap.parse_args()
    pid = a.pid
    if pid not in REGISTRY:
        print(f"unknown property {pid}")
        sys.exit(2)
    tier = a.tier if a.tier in ("quick", "thorough") else "quick"
    seed = int(os.environ.get("VERIF_SEED", "1") or "1")
    spec = REGISTRY[pid]
    ctx = Ctx(pid, tier, seed)
    evidence_path = os.path.join(ROOT, "evidence", f"{pid}.json")
    os.makedirs(os.path.dirname(evidence_path), exist_ok=True)
    if os.path.exists(evidence_path) and not a.replay:
        os.remove(evidence_path)

    # 1. audit + proof
    proof_fail = None
    bad = build.audit()
    if bad:
        proof_fail = "audit: " + "; ".join(bad[:5])
    coq = build.build_coq(spec["prop_file"])
    if coq.get("failed"):
        proof_fail = f"coq {coq['failed']} failed: " + (coq.get("prop_log") or coq.get("make_log", ""))[-1500:]
    allowed = set(spec.get("allowed_axioms", []))
    if not proof_fail:
        extra = [x for x in coq.get("axioms", []) if x not in allowed]
        if extra:
            proof_fail = "theorem depends on axioms outside the allowlist: " + ", ".join(extra)
        elif coq.get("n_closed", 0) + (1 if coq.get("axioms") else 0) < 1:
            proof_fail = "no Print Assumptions output under the property theorems"
    chk = None
    if tier == "thorough" and not proof_fail and not a.replay:
        chk = build.coqchk(spec["prop_file"])
        if chk["rc"] != 0:
            proof_fail = "coqchk rejected the compiled development: " + chk["tail"][-400:]
        elif [x for x in chk["axioms"] if x not in allowed]:
            proof_fail = "coqchk reports axioms outside the allowlist: " + ", ".join(chk["axioms"])
    coq["coqchk"] = chk
    deps = build.coq_deps(spec["prop_file"]) if not coq.get("failed") == "make" else []
    obligations = build.count_obligations(deps) if deps else 0

    # 2. implementation side + model
    try:
        build.build_model()
        build.build_harness()
    except build.BuildError as e:
        # cannot build: nothing can be shown about this tree
        ctx.violation(f"build failed: {e.what}", dict(theorem_or_correspondence="build", log=e.log[-3000:]),
                      no_input=True)
        finish(ctx, spec, coq, obligations, proof_fail, evidence_path)
        return

    # 3/4. property-specific correspondence + oracle
    try:
        if a.replay:
            spec["replay"](ctx, json.load(open(a.replay)))
        else:
            spec["run"](ctx)
    except Exception:
        tb = traceback.format_exc()
        ctx.violation("checker crashed: " + tb.strip().splitlines()[-1][:300] + " | " + tb[-900:],
                      dict(theorem_or_correspondence="checker"), no_input=True)
    finish(ctx, spec, coq, obligations, proof_fail, evidence_path)


def finish(ctx, spec, coq, obligations, proof_fail, evidence_path):
    if proof_fail and not any(not v["no_input"] for v in ctx.violations):
        ctx.violation("proof obligation no longer checks: " + proof_fail,
                      dict(theorem_or_correspondence=spec["prop_file"], detail=proof_fail), no_input=True)
    for l in ctx.known_lines:
        print(l)
    rc = 0
    shown = 0
    # concrete failing inputs first
    for n, v in enumerate(sorted(ctx.violations, key=lambda v: v["no_input"])):
        if shown >= 5:
            break
        if v["no_input"] and any(not w["no_input"] for w in ctx.violations):
            continue
        p = write_replay(ctx, v, n)
        print(f"VIOLATION property={ctx.pid} replay={p}" + (" no-failing-input-found" if v["no_input"] else ""))
        print("  " + v["what"][:600].replace("\n", "\n  "))
        shown += 1
        rc = 1
    cov = dict(ctx.coverage)
    if P.RETRIES:
        cov["scenario_runs_repeated_after_a_machinery_exception"] = [list(x) for x in P.RETRIES[:20]]
    discharged = obligations if not proof_fail else 0
    cov.update(dict(
        obligations=max(obligations, 1), discharged=discharged,
        checker_cmd=f"cd coq && make -j16 (full .vo) && coqc -Q . XS {spec['prop_file']}  # Print Assumptions parsed; audit grep",
        trusted_base=[
            "Coq 8.16.1 kernel (coqc, full .vo build; vm_compute in Examples/_refuted witnesses; no native_compute)",
            "axioms reported by Print Assumptions under the property theorems: "
            + (", ".join(coq.get("axioms", [])) or "none (Closed under the global context)"),
            "extraction: ExtrOcamlBasic only (bool/option/unit/list/prod/sumbool -> OCaml); no Extract Constant of ours; OCaml 4.13 + ocaml/driver.ml glue",
            "correspondence check: harness/ (xsv), hook module src/verif.rs, verif/*.py generators/diff",
            "modelled, not verified: fjall (ordered KV + atomic batch), scru128 (id oracle), tokio channels, cacache, serde_json/serde_urlencoded, hyper, Nushell",
        ],
        print_assumptions=dict(closed=coq.get("n_closed", 0), axioms=coq.get("axioms", [])),
        coqchk=coq.get("coqchk"),
        coq_build_s=round(coq.get("wall_s", 0), 1),
    ))
    ev = dict(property_id=ctx.pid, tier=ctx.tier, seed=ctx.seed, level=spec.get("level", "proof"),
              coverage=cov, assumptions=spec.get("assumptions", []) + ctx.assumptions,
              wall_s=round(time.time() - ctx.t0, 2), violations=len([v for v in ctx.violations]))
    json.dump(ev, open(evidence_path, "w"), indent=1)
    if rc == 0:
        print(f"OK property={ctx.pid} tier={ctx.tier} seed={ctx.seed} "
              f"obligations={obligations} evaluations={cov.get('evaluations')} wall={ev['wall_s']}s")
    sys.exit(rc)


if __name__ == "__main__":
    main()
