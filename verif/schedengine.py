"""Engine C: model-generated schedules replayed on the real code at sync-point granularity."""
import os, random, shutil, subprocess, tempfile, time
from concurrent.futures import ThreadPoolExecutor

from . import build


def gen_config(r, profile):
    """A configuration: contexts, pre-existing history, writers, followers, pollers."""
    lines = []
    nctx = r.choice(profile.get("nctx", [0, 1, 1, 2]))
    for _ in range(nctx):
        lines.append("ctx")
    hist = r.choice(profile.get("hist", [0, 0, 1, 2, 3, 5]))
    for _ in range(hist):
        lines.append(f"pre {r.randrange(nctx + 1)} 1")
    if r.random() < profile.get("p_long_hist", 0.0):
        lines.append(f"pre {r.randrange(nctx + 1)} {r.choice([100, 101, 150])}")
        hist += 150
    nw = r.choice(profile.get("writers", [1, 2, 2, 3]))
    for w in range(nw):
        ps = []
        for _ in range(r.choice(profile.get("payloads", [1, 2, 2, 3]))):
            eph = "e" if r.random() < profile.get("p_eph", 0.25) else "s"
            ok = "bad" if r.random() < profile.get("p_bad", 0.1) else "ok"
            ps.append(f"{r.randrange(nctx + 1)}:{eph}:{ok}")
        lines.append(f"writer {w} " + " ".join(ps))
    nf = r.choice(profile.get("followers", [1, 1, 2, 3]))
    for k in range(nf):
        follow = 1 if r.random() < profile.get("p_follow", 0.8) else 0
        tail = 1 if follow and r.random() < profile.get("p_tail", 0.2) else 0
        last = "-"
        if hist and not tail and r.random() < 0.3:
            last = str(r.randrange(min(hist, 6) + nctx))
        limit = "-"
        if r.random() < profile.get("p_limit", 0.25):
            limit = str(r.choice([1, 1, 2, 3, max(1, hist), hist + 1]))
        ctx = "-" if r.random() < 0.5 else str(r.randrange(nctx + 1))
        pulse = "3600000" if follow and r.random() < profile.get("p_pulse", 0.15) else "-"
        lines.append(f"follower {k} {follow} {tail} {last} {limit} {ctx} {pulse}")
    for p in range(r.choice(profile.get("pollers", [0, 1, 1]))):
        lines.append(f"poller {p}")
    return lines


def model_schedule(cfg_lines, locked, seed, steps, finish=True):
    p = subprocess.run([build.XSMODEL, "gen-sched", "1" if locked else "0", str(seed), str(steps),
                        "1" if finish else "0"], input=("\n".join(cfg_lines) + "\n").encode(),
                       stdout=subprocess.PIPE, stderr=subprocess.PIPE, timeout=120)
    if p.returncode:
        raise RuntimeError("xsmodel gen-sched failed: " + p.stderr.decode()[-500:])
    return p.stdout.decode().splitlines()


def model_labels(cfg_lines, labels, locked):
    p = subprocess.run([build.XSMODEL, "labels-sched", "1" if locked else "0"],
                       input=("\n".join(cfg_lines + labels) + "\n").encode(),
                       stdout=subprocess.PIPE, stderr=subprocess.PIPE, timeout=120)
    if p.returncode:
        raise RuntimeError("xsmodel labels-sched failed: " + p.stderr.decode()[-500:])
    return p.stdout.decode().splitlines()


def run_schedule(lines, short_ms=250, long_ms=30000):
    os.makedirs(os.path.join(build.BUILD, "work"), exist_ok=True)
    wd = tempfile.mkdtemp(prefix="sch-", dir=os.path.join(build.BUILD, "work"))
    try:
        sp = os.path.join(wd, "sched.txt")
        open(sp, "w").write("\n".join(lines) + "\n")
        op = os.path.join(wd, "out.txt")
        t0 = time.time()
        try:
            p = subprocess.run([build.XSV, "sched", sp, os.path.join(wd, "w"), op], stdout=subprocess.PIPE,
                               stderr=subprocess.PIPE, timeout=600, env=dict(os.environ, XSV_SHORT_MS=str(short_ms), XSV_LONG_MS=str(long_ms)))
            rc, err = p.returncode, p.stderr.decode(errors="replace")[-1500:]
        except subprocess.TimeoutExpired:
            rc, err = -9, "timeout"
        out = open(op).read().splitlines() if os.path.exists(op) else []
        mism = [l for l in out if l.startswith("MISMATCH")]
        ended = any(l.startswith("END") for l in out)
        return dict(rc=rc, stderr=err, out=out, mismatch=mism[0] if mism else None, complete=ended and rc == 0,
                    n_ok=sum(1 for l in out if l.startswith("ok")), wall=time.time() - t0)
    finally:
        shutil.rmtree(wd, ignore_errors=True)


def run_many(schedules, jobs=8, short_ms=250):
    with ThreadPoolExecutor(max_workers=jobs) as ex:
        return list(ex.map(lambda s: run_schedule(s, short_ms), schedules))


# ---- observed data (for the property oracles) ------------------------------------------------
def observed(lines, out):
    """Extract what the implementation showed: per follower the consumed items, per poller the
    polled ranks, from the harness' ok/MISMATCH lines (the 'actual' part)."""
    cons, polls, final = {}, {}, {}
    for l in out:
        if not (l.startswith("ok ") or l.startswith("MISMATCH ")):
            continue
        ln = int(l.split()[1])
        cmd = lines[ln].split()
        actual = l.split("|")[-1].replace("actual", "").split()
        if cmd[1] == "consume":
            for a in actual:
                if a.startswith("item:"):
                    cons.setdefault(int(cmd[2]), []).append(a[5:])
        elif cmd[1] == "poll":
            for a in actual:
                if a.startswith("frames"):
                    polls.setdefault(int(cmd[2]), []).extend(int(x[1:]) for x in a.split(":")[1:] if x != "#?")
        elif cmd[1] == "probe":
            for a in actual:
                if a in ("open", "closed", "draining"):
                    final[int(cmd[2])] = a
    return cons, polls, final
