"""Engine C: model-generated schedules replayed on the real code at sync-point granularity."""
import os, random, shutil, subprocess, tempfile, time
from concurrent.futures import ThreadPoolExecutor

from . import build


def gen_config(r, profile):
    """A configuration: contexts, pre-existing history, writers, followers, pollers."""
    lines = []
    nctx = r.choice(profile.get("nctx", [0, 1, 1, 2]))
    for _ in range(nctx):
        lines.append("ctx")
    hist = r.choice(profile.get("hist", [0, 0, 1, 2, 3, 5]))
    for _ in range(hist):
        lines.append(f"pre {r.randrange(nctx + 1)} 1")
    if r.random() < profile.get("p_long_hist", 0.0):
        lines.append(f"pre {r.randrange(nctx + 1)} {r.choice([100, 101, 150])}")
        hist += 150
    nw = r.choice(profile.get("writers", [1, 2, 2, 3]))
    for w in range(nw):
        ps = []
        for _ in range(r.choice(profile.get("payloads", [1, 2, 2, 3]))):
            eph = "e" if r.random() < profile.get("p_eph", 0.25) else "s"
            ok = "bad" if r.random() < profile.get("p_bad", 0.1) else "ok"
            ps.append(f"{r.randrange(nctx + 1)}:{eph}:{ok}")
        lines.append(f"writer {w} " + " ".join(ps))
    nf = r.choice(profile.get("followers", [1, 1, 2, 3]))
    for k in range(nf):
        follow = 1 if r.random() < profile.get("p_follow", 0.8) else 0
        tail = 1 if follow and r.random() < profile.get("p_tail", 0.2) else 0
        last = "-"
        if hist and not tail and r.random() < 0.3:
            last = str(r.randrange(min(hist, 6) + nctx))
        limit = "-"
        if r.random() < profile.get("p_limit", 0.25):
            limit = str(r.choice([1, 1, 2, 3, max(1, hist), hist + 1]))
        ctx = "-" if r.random() < 0.5 else str(r.randrange(nctx + 1))
        pulse = "3600000" if follow and r.random() < profile.get("p_pulse", 0.15) else "-"
        lines.append(f"follower {k} {follow} {tail} {last} {limit} {ctx} {pulse}")
    for p in range(r.choice(profile.get("pollers", [0, 1, 1]))):
        lines.append(f"poller {p}")
    return lines


def model_schedule(cfg_lines, locked, seed, steps, finish=True):
    p = subprocess.run([build.XSMODEL, "gen-sched", "1" if locked else "0", str(seed), str(steps),
                        "1" if finish else "0"], input=("\n".join(cfg_lines) + "\n").encode(),
                       stdout=subprocess.PIPE, stderr=subprocess.PIPE, timeout=120)
    if p.returncode:
        raise RuntimeError("xsmodel gen-sched failed: " + p.stderr.decode()[-500:])
    return p.stdout.decode().splitlines()


def model_labels(cfg_lines, labels, locked):
    p = subprocess.run([build.XSMODEL, "labels-sched", "1" if locked else "0"],
                       input=("\n".join(cfg_lines + labels) + "\n").encode(),
                       stdout=subprocess.PIPE, stderr=subprocess.PIPE, timeout=120)
    if p.returncode:
        raise RuntimeError("xsmodel labels-sched failed: " + p.stderr.decode()[-500:])
    return p.stdout.decode().splitlines()


def run_schedule(lines, short_ms=250, long_ms=30000, keep_going=False):
    os.makedirs(os.path.join(build.BUILD, "work"), exist_ok=True)
    wd = tempfile.mkdtemp(prefix="sch-", dir=os.path.join(build.BUILD, "work"))
    try:
        sp = os.path.join(wd, "sched.txt")
        open(sp, "w").write("\n".join(lines) + "\n")
        op = os.path.join(wd, "out.txt")
        t0 = time.time()
        try:
            p = subprocess.run([build.XSV, "sched", sp, os.path.join(wd, "w"), op], stdout=subprocess.PIPE,
                               stderr=subprocess.PIPE, timeout=600, env=dict(os.environ, XSV_SHORT_MS=str(short_ms), XSV_LONG_MS=str(long_ms),
                                        **({"XSV_CONTINUE": "1"} if keep_going else {})))
            rc, err = p.returncode, p.stderr.decode(errors="replace")[-1500:]
        except subprocess.TimeoutExpired:
            rc, err = -9, "timeout"
        out = open(op).read().splitlines() if os.path.exists(op) else []
        mism = [l for l in out if l.startswith("MISMATCH")]
        ended = any(l.startswith("END") for l in out)
        return dict(rc=rc, stderr=err, out=out, mismatch=mism[0] if mism else None, complete=ended and rc == 0,
                    n_ok=sum(1 for l in out if l.startswith("ok")), wall=time.time() - t0)
    finally:
        shutil.rmtree(wd, ignore_errors=True)


def run_many(schedules, jobs=8, short_ms=250):
    with ThreadPoolExecutor(max_workers=jobs) as ex:
        return list(ex.map(lambda s: run_schedule(s, short_ms), schedules))


# ---- observed data (for the property oracles) ------------------------------------------------
def observed(lines, out):
    """Extract what the implementation showed: per follower the consumed items, per poller the
    polled ranks, from the harness' ok/MISMATCH lines (the 'actual' part)."""
    cons, polls, final = {}, {}, {}
    for l in out:
        if not (l.startswith("ok ") or l.startswith("MISMATCH ")):
            continue
        ln = int(l.split()[1])
        cmd = lines[ln].split()
        actual = l.split("|")[-1].replace("actual", "").split()
        if cmd[1] in ("consume", "drain"):
            for a in actual:
                if a.startswith("item:"):
                    cons.setdefault(int(cmd[2]), []).append(a[5:])
        elif cmd[1] == "poll":
            for a in actual:
                if a.startswith("frames"):
                    polls.setdefault(int(cmd[2]), []).extend(int(x[1:]) for x in a.split(":")[1:] if x != "#?")
        elif cmd[1] == "probe":
            for a in actual:
                if a in ("open", "closed", "draining"):
                    final[int(cmd[2])] = a
    return cons, polls, final


# ---- hook-free stress ---------------------------------------------------------------------------
import json


def run_stress(writers, per_writer, pollers, seed):
    os.makedirs(os.path.join(build.BUILD, "work"), exist_ok=True)
    wd = tempfile.mkdtemp(prefix="str-", dir=os.path.join(build.BUILD, "work"))
    try:
        op = os.path.join(wd, "out.json")
        p = subprocess.run([build.XSV, "stress", os.path.join(wd, "w"), op, str(writers), str(per_writer),
                            str(pollers), str(seed)], stdout=subprocess.PIPE, stderr=subprocess.PIPE, timeout=900)
        if p.returncode or not os.path.exists(op):
            return dict(error=p.stderr.decode(errors="replace")[-1500:], rc=p.returncode)
        return json.load(open(op))
    finally:
        shutil.rmtree(wd, ignore_errors=True)


def stress_oracle(d, which):
    """which in C02 / C03 / C11; returns list of violation strings judged on the raw output"""
    bad = []
    if "error" in d:
        return [f"stress run failed: rc={d['rc']} {d['error'][-300:]}"]
    final = [x.split(":") for x in d["final"]]
    final_ids = [i for i, _ in final]
    ctx_of = {i: c for i, c in final}
    eph = {x.split(":")[0]: x.split(":")[1] for x in d["ephemeral"]}
    ctxs = d["contexts"]
    if which == "C02":
        if final_ids != sorted(final_ids):
            bad.append("final read is not id-sorted")
        for f in d["followers"]:
            got = [x.split(":")[1] for x in f["items"] if x.startswith("r:")]
            if any(b <= a for a, b in zip(got, got[1:])):
                k = next(j for j, (a, b) in enumerate(zip(got, got[1:])) if b <= a)
                bad.append(f"subscriber {f['name']} was sent {got[k + 1]} after {got[k]}: not in id order")
        for n, acc in enumerate(d["pollers"]):
            if any(b <= a for a, b in zip(acc, acc[1:])):
                bad.append(f"poller {n}: frames out of order or repeated")
            miss = [i for i in final_ids if i not in set(acc)]
            if miss:
                bad.append(f"poller {n} (last-id polling) never received {len(miss)} committed frames, e.g. {miss[:3]}")
        for f in d["followers"]:
            ids = [x.split(":")[1] for x in f["items"] if x.startswith("r:")]
            if any(b <= a for a, b in zip(ids, ids[1:])):
                bad.append(f"follower {f['name']}: frames sent out of id order")
    fol = {f["name"]: f for f in d["followers"]}
    def reals(name):
        return [x.split(":")[1:] for x in fol[name]["items"] if x.startswith("r:")]
    if which == "C03":
        for name, scope in (("all", None), ("ctx1", ctxs[1])):
            got = [i for i, c in reals(name)]
            want = [i for i in final_ids if scope is None or ctx_of[i] == scope]
            if any(b <= a for a, b in zip(got, got[1:])):
                bad.append(f"follower {name}: out of order / duplicate delivery")
            miss = [i for i in want if i not in set(got)]
            if miss:
                bad.append(f"follower {name}: {len(miss)} stored in-scope frames never delivered, e.g. {miss[:3]}")
            wrong = [i for i, c in reals(name) if scope is not None and c != scope]
            if wrong:
                bad.append(f"follower {name}: frames of another context delivered: {wrong[:3]}")
            if fol[name]["items"].count("t") != 1:
                bad.append(f"follower {name}: {fol[name]['items'].count('t')} threshold markers")
            else:
                k = fol[name]["items"].index("t")
                before = {x.split(":")[1] for x in fol[name]["items"][:k] if x.startswith("r:")}
                hist = [i for i in want if i <= d["hist_last"]]
                if any(i not in before for i in hist):
                    bad.append(f"follower {name}: pre-existing frames delivered after the threshold")
        # followers that joined in the middle of the burst with a slow start (replay still running while frames arrive)
        for name, scope in (("late_all", None), ("late_ctx1", ctxs[1])):
            if name not in fol:
                continue
            got = [i for i, c in reals(name)]
            if any(b <= a for a, b in zip(got, got[1:])):
                k = next(j for j, (a, b) in enumerate(zip(got, got[1:])) if b <= a)
                bad.append(f"follower {name} (joined mid-burst, slow start): delivery #{k + 2} is {got[k + 1]} after {got[k]} - out of order / duplicate"
                           f" ({'ephemeral' if got[k + 1] in eph else 'stored'} after {'ephemeral' if got[k] in eph else 'stored'})")
            if not fol[name]["closed"]:
                want = [i for i in final_ids if scope is None or ctx_of[i] == scope]
                miss = [i for i in want if i not in set(got)]
                if miss:
                    bad.append(f"follower {name} (joined mid-burst): {len(miss)} stored in-scope frames never delivered although the stream stayed open, e.g. {miss[:3]}")
            wrong = [i for i, c in reals(name) if scope is not None and c != scope]
            if wrong:
                bad.append(f"follower {name}: frames of another context delivered: {wrong[:3]}")
            if fol[name]["items"].count("t") != 1:
                bad.append(f"follower {name}: {fol[name]['items'].count('t')} threshold markers")
        got = [i for i, c in reals("lastid")]
        want = [i for i in final_ids if ctx_of[i] == ctxs[2] and i > d["hist_last"]]
        if [i for i in want if i not in set(got)] or any(i <= d["hist_last"] for i in got):
            bad.append("follower lastid: wrong set of frames after last-id")
    if which == "C11":
        for name, n in (("limit5", 5), ("limit9hb", 9), ("tail_limit3_ctx2", 3)):
            got = reals(name)
            if len(got) > n:
                bad.append(f"follower {name}: limit {n} but {len(got)} frames delivered")
            avail = len(final_ids) + len(eph)
            if len(got) == n and not fol[name]["closed"]:
                bad.append(f"follower {name}: limit {n} reached but the stream never ended")
            if len(got) < n and avail > 200:
                bad.append(f"follower {name}: only {len(got)} of {n} frames delivered")
        hist = {i for i in final_ids if i <= d["hist_last"]}
        for name in ("tail", "tail_limit3_ctx2"):
            old = [i for i, c in reals(name) if i in hist]
            if old:
                bad.append(f"follower {name} (tail) was sent historical frames {old[:3]}")
        for f in d["followers"]:
            if "p" in f["items"] and f["name"] not in ("limit9hb", "hb_tail_limit7", "hb_tail"):
                bad.append(f"follower {f['name']}: received pulses it did not ask for")
        # heartbeat subscribers: pulses are theirs alone and do not count against the limit
        if "hb_tail_limit7" in fol:
            got = reals("hb_tail_limit7")
            if len(got) != 7 and len(final_ids) + len(eph) > 50:
                bad.append(f"follower hb_tail_limit7 (heartbeat, tail, limit 7): {len(got)} real frames delivered with "
                           f"{fol['hb_tail_limit7']['items'].count('p')} pulses (the limit counts frames, not pulses)")
            if len(got) == 7 and not fol["hb_tail_limit7"]["closed"]:
                bad.append("follower hb_tail_limit7: limit reached but the stream never ended")
        if "hb_tail" in fol:
            if fol["hb_tail"]["items"].count("p") == 0 and d.get("write_s", 0) > 0.2:
                bad.append("follower hb_tail asked for a heartbeat every 15 ms and received no pulse")
            wrong = [i for i, c in reals("hb_tail") if c != ctxs[1]]
            if wrong:
                bad.append(f"follower hb_tail: frames of another context delivered: {wrong[:3]}")
        # synthetic frames never stored
    return bad
