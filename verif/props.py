"""Per-property configuration: which theorem file, which engine, which generator profile,
which observations form the property's footprint."""
import hashlib, json, os, random, time

from . import build
from . import seqengine as S

ROOT = build.ROOT


def shrink_script(lines, still_fails, budget=60):
    """delta-debug: blank out lines (numbering is preserved because other lines refer to
    line numbers) while the failure persists"""
    cur = list(lines)
    n = max(1, len([l for l in cur if not l.startswith("//")]) // 2)
    tries = 0
    while n >= 1 and tries < budget:
        idx = [i for i, l in enumerate(cur) if not l.startswith("//")]
        changed = False
        for s in range(0, len(idx), n):
            if tries >= budget:
                break
            cand = list(cur)
            for i in idx[s:s + n]:
                cand[i] = "// removed"
            tries += 1
            if still_fails(cand):
                cur = cand
                changed = True
        if not changed:
            n //= 2
    return cur


def seq_case_fails(lines, footprint, kind):
    res = S.run_script(lines)
    c = S.compare(res, footprint)
    return bool(c[kind]) or (kind == "corr" and c["incomplete"] is not None)


def corpus_scripts(pid):
    d = os.path.join(ROOT, "corpus", pid)
    out = []
    if os.path.isdir(d):
        for f in sorted(os.listdir(d)):
            if f.endswith(".txt"):
                out.append((f, [l for l in open(os.path.join(d, f)).read().splitlines()]))
    return out


def run_known_probes(ctx, footprint):
    """Known findings are re-demonstrated on every run; the KNOWN-FINDING line is printed
    only if the probe still reproduces (expected: the spec-level oracle fails on it)."""
    for k in ctx.known:
        p = os.path.join(ROOT, k["probe"])
        lines = open(p).read().splitlines()
        res = S.run_script(lines)
        cmp_ = S.compare(res, None)
        impl = S.parse_trace(res["trace"])
        exp = k["expect"]  # dict(line=<script op index>, impl_obs_prefix=..)
        hit = False
        for (op, obs) in impl:
            if " ".join(op).startswith(exp["op_prefix"]) and obs.startswith(exp["impl_obs_prefix"]):
                hit = True
        if cmp_["corr"] or cmp_["incomplete"]:
            ctx.violation(f"known-finding probe {k['key']}: implementation and model disagree",
                          dict(script=lines, first=(cmp_["corr"] or [cmp_["incomplete"]])[0],
                               theorem_or_correspondence="engine S probe " + k["probe"]), no_input=True)
        elif hit:
            ctx.known_lines.append(f"KNOWN-FINDING: property={ctx.pid} {k['key']}: {k['what']}")


def seq_run(profile, footprint, n_quick, n_thorough, ops_quick=22, ops_thorough=45, extra=None):
    def run(ctx):
        n = n_quick if ctx.tier == "quick" else n_thorough
        n_ops = ops_quick if ctx.tier == "quick" else ops_thorough
        scripts, stats = [], {}
        names = []
        for name, lines in corpus_scripts(ctx.pid):
            scripts.append(lines)
            names.append("corpus:" + name)
        for i in range(n):
            g = S.Gen(random.Random(ctx.rnd.getrandbits(64)), profile)
            scripts.append(g.history(ctx.rnd.randrange(max(3, n_ops // 3), n_ops + 1)))
            names.append(f"gen:{i}")
            for k, v in g.stats.items():
                stats[k] = stats.get(k, 0) + v
        run_known_probes(ctx, footprint)
        results = S.run_many(scripts)
        n_ops_total, distinct, n_hyp_broken, fp_ops = 0, set(), 0, 0
        worst_corr, worst_spec = None, None
        obs_kinds = {}
        for name, lines, res in zip(names, scripts, results):
            c = S.compare(res, footprint)
            n_ops_total += c["n_ops"]
            impl = S.parse_trace(res["trace"])
            accepted = sum(1 for (op, obs) in impl if op[0] in ("append", "import") and obs.startswith(("= ok", "= unit")))
            for (op, obs) in impl:
                if op[0] in footprint:
                    fp_ops += 1
                    key = op[0] + ":" + obs.split(" ")[1]
                    obs_kinds[key] = obs_kinds.get(key, 0) + 1
            if accepted >= 2:
                distinct.add(hashlib.sha256("\n".join(lines).encode()).hexdigest())
            if c["hyp_broken_at"] is not None:
                n_hyp_broken += 1
            if c["incomplete"] and worst_corr is None:
                worst_corr = (name, lines, dict(k=-1, op="(run incomplete)", **{k: str(v)[:500] for k, v in c["incomplete"].items()}))
            if c["corr"] and (worst_corr is None or worst_corr[2].get("k", 0) == -1):
                worst_corr = (name, lines, c["corr"][0])
            if c["spec"] and worst_spec is None:
                worst_spec = (name, lines, c["spec"][0])
        ctx.coverage.update(dict(
            evaluations=len(scripts), distinct_nontrivial=len(distinct),
            rule="one evaluation = one generated store history (script) run on the real Store (child process, real "
                 "restarts) and on the extracted model+spec; non-trivial = at least 2 accepted appends/imports; "
                 "distinct = distinct script text",
            traces_validated_against_impl=len(scripts), ops_executed=n_ops_total,
            footprint=sorted(footprint), footprint_observations=fp_ops, observation_kinds=obs_kinds,
            op_histogram=stats, histories_leaving_hypotheses=n_hyp_broken,
            samples=[dict(name=names[i], script=scripts[i][:12]) for i in range(min(2, len(scripts)))]))
        if extra:
            extra(ctx)
        if worst_spec:
            name, lines, d = worst_spec
            small = shrink_script(lines, lambda l: seq_case_fails(l, footprint, "spec"))
            res = S.run_script(small)
            c2 = S.compare(res, footprint)
            d2 = c2["spec"][0] if c2["spec"] else d
            ctx.violation(
                f"implementation deviates from the specification within the hypotheses of the theorem "
                f"(case {name}): op `{d2['op'][:200]}` returned `{d2['impl'][:300]}`, spec says `{d2['spec'][:300]}`",
                dict(engine="S", script=[l for l in small], first_disagreement=d2, case=name))
        elif worst_corr:
            name, lines, d = worst_corr
            # model no longer covers the code: search harder before giving up
            found = search_harder(ctx, profile, footprint)
            if found:
                name2, lines2, d2 = found
                small = shrink_script(lines2, lambda l: seq_case_fails(l, footprint, "spec"))
                ctx.violation(f"implementation deviates from the specification (case {name2}): op `{d2['op'][:200]}` "
                              f"returned `{d2['impl'][:300]}`, spec says `{d2['spec'][:300]}`",
                              dict(engine="S", script=small, first_disagreement=d2, case=name2))
            else:
                small = shrink_script(lines, lambda l: seq_case_fails(l, footprint, "corr"), budget=30)
                ctx.violation(
                    f"correspondence broken: implementation and model disagree (case {name}) on op "
                    f"`{d.get('op', '')[:200]}`: impl `{str(d.get('impl'))[:300]}` model `{str(d.get('model'))[:300]}`; "
                    f"no input violating the property was found",
                    dict(engine="S", theorem_or_correspondence="engine S: xsv seq vs extracted Model/Store.v",
                         script=small, first_disagreement=d, case=name), no_input=True)
    return run


def search_harder(ctx, profile, footprint, n=400):
    scripts = []
    for i in range(n):
        g = S.Gen(random.Random(ctx.rnd.getrandbits(64)), profile)
        scripts.append(g.history(ctx.rnd.randrange(5, 30)))
    for pid in sorted(os.listdir(os.path.join(ROOT, "corpus"))) if os.path.isdir(os.path.join(ROOT, "corpus")) else []:
        for name, lines in corpus_scripts(pid):
            scripts.append(lines)
    results = S.run_many(scripts)
    for i, (lines, res) in enumerate(zip(scripts, results)):
        c = S.compare(res, footprint)
        if c["spec"]:
            return (f"search:{i}", lines, c["spec"][0])
    return None


def seq_replay(footprint):
    def replay(ctx, obj):
        lines = obj["script"]
        res = S.run_script(lines)
        c = S.compare(res, footprint)
        print(json.dumps(dict(corr=c["corr"][:3], spec=c["spec"][:3], incomplete=c["incomplete"]), indent=1)[:4000])
        if c["spec"]:
            d = c["spec"][0]
            ctx.violation(f"replay: op `{d['op'][:200]}` returned `{d['impl'][:300]}`, spec says `{d['spec'][:300]}`",
                          dict(engine="S", script=lines, first_disagreement=d))
        elif c["corr"] or c["incomplete"]:
            ctx.violation("replay: implementation and model disagree", dict(
                engine="S", script=lines, theorem_or_correspondence="engine S",
                first_disagreement=(c["corr"] or [c["incomplete"]])[0]), no_input=True)
        ctx.coverage.update(dict(evaluations=1, distinct_nontrivial=1, samples=[lines[:10]]))
    return replay


ALL_OPS = {"append", "import", "remove", "setnow", "gcstep", "drain", "reopen", "readsync", "read", "get", "head"}

P_CTX = dict(op_w={"register": 5, "append": 8, "import": 5, "remove": 5, "tick": 0.5, "gc": 1, "reopen": 3, "badctx": 1},
             p_import_reg=0.5, p_import_collide=0.05, n_topics=3,
             ttl_w={"-": 3, "forever": 2, "ephemeral": 2, "time": 1, "head": 1})

REGISTRY = {
    "C07": dict(
        prop_file="Props/C07.v",
        run=seq_run(P_CTX, {"append", "import", "remove", "reopen", "get", "head", "readsync", "read"}, 120, 2000),
        replay=seq_replay(ALL_OPS),
        level_text="Coq theorems over the executable store model (Props/C07.v): a rejected append leaves the state "
                   "unchanged; acceptance of an ordinary append is exactly registry membership; xs.context frames are "
                   "accepted iff in the zero context, stored Forever and registered. The model is tied to /repo by running "
                   "generated registration/removal/import/reopen histories on the real Store (process restarts are real) and "
                   "on the extracted model and spec, comparing every observation.",
        level_note="Trusted: Coq kernel; extraction (ExtrOcamlBasic) + OCaml driver; Rust harness + hooks (clock, GC "
                   "stepping); fjall/scru128 modelled as oracles. Crash-reopen (kill at arbitrary syscall) is C04's engine.",
        assumptions=["id oracle (scru128) hands out fresh ids < 2^128",
                     "refinement hypotheses hyp_ok (Model/Spec.v): no import re-using an id with another "
                     "topic/context, no context 2^128-1, imported registration frames carry a persistent TTL"],
    ),
}
