"""Per-property configuration: which theorem file, which engine, which generator profile,
which observations form the property's footprint."""
import hashlib, json, os, random, time

from . import build
from . import seqengine as S

ROOT = build.ROOT


RETRIES = []   # (scenario, seed, last line of the exception) of scenario runs that had to be repeated


def robust(fn, name="scenario", tries=3):
    """run one scenario; an exception of the machinery itself (server start, socket, model driver
    under load) is retried; after `tries` attempts it is re-raised with its tail, so the check
    reports it (a check that cannot run does not pass)."""
    import traceback, time as _t
    def g(sd):
        last = ""
        for k in range(tries):
            try:
                return fn(sd)
            except Exception:
                last = traceback.format_exc()
                RETRIES.append((name, sd, last.strip().splitlines()[-1][:200]))
                _t.sleep(0.5 + k)
        raise RuntimeError(f"{name} seed={sd} failed {tries} times: " + last[-700:])
    return g


def shrink_script(lines, still_fails, budget=60):
    """delta-debug: blank out lines (numbering is preserved because other lines refer to
    line numbers) while the failure persists"""
    cur = list(lines)
    n = max(1, len([l for l in cur if not l.startswith("//")]) // 2)
    tries = 0
    while n >= 1 and tries < budget:
        idx = [i for i, l in enumerate(cur) if not l.startswith("//")]
        changed = False
        for s in range(0, len(idx), n):
            if tries >= budget:
                break
            cand = list(cur)
            for i in idx[s:s + n]:
                cand[i] = "// removed"
            tries += 1
            if still_fails(cand):
                cur = cand
                changed = True
        if not changed:
            n //= 2
    return cur


def seq_case_fails(lines, footprint, kind):
    res = S.run_script(lines)
    c = S.compare(res, footprint)
    return bool(c[kind]) or (kind == "corr" and c["incomplete"] is not None)


def corpus_scripts(pid):
    d = os.path.join(ROOT, "corpus", pid)
    out = []
    if os.path.isdir(d):
        for f in sorted(os.listdir(d)):
            if f.endswith(".txt"):
                out.append((f, [l for l in open(os.path.join(d, f)).read().splitlines()]))
    return out


def run_known_probes(ctx, footprint):
    """Known findings are re-demonstrated on every run; the KNOWN-FINDING line is printed
    only if the probe still reproduces (expected: the spec-level oracle fails on it)."""
    for k in ctx.known:
        p = os.path.join(ROOT, k["probe"])
        lines = open(p).read().splitlines()
        res = S.run_script(lines)
        cmp_ = S.compare(res, None)
        impl = S.parse_trace(res["trace"])
        exp = k["expect"]  # dict(line=<script op index>, impl_obs_prefix=..)
        hit = False
        for (op, obs) in impl:
            if " ".join(op).startswith(exp["op_prefix"]) and obs.startswith(exp.get("impl_obs_prefix", "")) \
                    and exp.get("impl_obs_contains", "") in obs:
                hit = True
        if cmp_["corr"] or cmp_["incomplete"]:
            ctx.violation(f"known-finding probe {k['key']}: implementation and model disagree",
                          dict(script=lines, first=(cmp_["corr"] or [cmp_["incomplete"]])[0],
                               theorem_or_correspondence="engine S probe " + k["probe"]), no_input=True)
        elif hit:
            ctx.known_lines.append(f"KNOWN-FINDING: property={ctx.pid} {k['key']}: {k['what']}")


def seq_run(profile, footprint, n_quick, n_thorough, ops_quick=22, ops_thorough=45, extra=None):
    def run(ctx):
        n = n_quick if ctx.tier == "quick" else n_thorough
        n_ops = ops_quick if ctx.tier == "quick" else ops_thorough
        scripts, stats = [], {}
        names = []
        for name, lines in corpus_scripts(ctx.pid):
            scripts.append(lines)
            names.append("corpus:" + name)
        for i in range(n):
            wild = (i % 8 == 7)     # 1 in 8 histories deliberately leaves the hypotheses
            g = S.Gen(random.Random(ctx.rnd.getrandbits(64)), dict(profile, wild=wild))
            scripts.append(g.history(ctx.rnd.randrange(max(3, n_ops // 3), n_ops + 1)))
            names.append(f"gen:{i}" + (":wild" if wild else ""))
            for k, v in g.stats.items():
                stats[k] = stats.get(k, 0) + v
        run_known_probes(ctx, footprint)
        results = S.run_many(scripts)
        n_ops_total, distinct, n_hyp_broken, fp_ops = 0, set(), 0, 0
        worst_corr, worst_spec = None, None
        obs_kinds = {}
        for name, lines, res in zip(names, scripts, results):
            c = S.compare(res, footprint)
            n_ops_total += c["n_ops"]
            impl = S.parse_trace(res["trace"])
            accepted = sum(1 for (op, obs) in impl if op[0] in ("append", "import") and obs.startswith(("= ok", "= unit")))
            for (op, obs) in impl:
                if op[0] in footprint:
                    fp_ops += 1
                    key = op[0] + ":" + obs.split(" ")[1]
                    obs_kinds[key] = obs_kinds.get(key, 0) + 1
            if accepted >= 2:
                distinct.add(hashlib.sha256("\n".join(lines).encode()).hexdigest())
            if c["hyp_broken_at"] is not None:
                n_hyp_broken += 1
            if c["incomplete"] and worst_corr is None:
                worst_corr = (name, lines, dict(k=-1, op="(run incomplete)", **{k: str(v)[:500] for k, v in c["incomplete"].items()}))
            if c["corr"] and (worst_corr is None or worst_corr[2].get("k", 0) == -1):
                worst_corr = (name, lines, c["corr"][0])
            if c["spec"] and worst_spec is None:
                worst_spec = (name, lines, c["spec"][0])
        ctx.coverage.update(dict(
            evaluations=len(scripts), distinct_nontrivial=len(distinct),
            rule="one evaluation = one generated store history (script) run on the real Store (child process, real "
                 "restarts) and on the extracted model+spec; non-trivial = at least 2 accepted appends/imports; "
                 "distinct = distinct script text",
            traces_validated_against_impl=len(scripts), ops_executed=n_ops_total,
            footprint=sorted(footprint), footprint_observations=fp_ops, observation_kinds=obs_kinds,
            op_histogram=stats, histories_leaving_hypotheses=n_hyp_broken,
            samples=[dict(name=names[i], script=scripts[i][:12]) for i in range(min(2, len(scripts)))]))
        if extra:
            extra(ctx)
        if worst_spec:
            name, lines, d = worst_spec
            small = shrink_script(lines, lambda l: seq_case_fails(l, footprint, "spec"))
            res = S.run_script(small)
            c2 = S.compare(res, footprint)
            d2 = c2["spec"][0] if c2["spec"] else d
            ctx.violation(
                f"implementation deviates from the specification within the hypotheses of the theorem "
                f"(case {name}): op `{d2['op'][:200]}` returned `{d2['impl'][:300]}`, spec says `{d2['spec'][:300]}`",
                dict(engine="S", script=[l for l in small], first_disagreement=d2, case=name))
        elif worst_corr:
            name, lines, d = worst_corr
            # model no longer covers the code: search harder before giving up
            found = search_harder(ctx, profile, footprint)
            if found:
                name2, lines2, d2 = found
                small = shrink_script(lines2, lambda l: seq_case_fails(l, footprint, "spec"))
                ctx.violation(f"implementation deviates from the specification (case {name2}): op `{d2['op'][:200]}` "
                              f"returned `{d2['impl'][:300]}`, spec says `{d2['spec'][:300]}`",
                              dict(engine="S", script=small, first_disagreement=d2, case=name2))
            else:
                small = shrink_script(lines, lambda l: seq_case_fails(l, footprint, "corr"), budget=30)
                ctx.violation(
                    f"correspondence broken: implementation and model disagree (case {name}) on op "
                    f"`{d.get('op', '')[:200]}`: impl `{str(d.get('impl'))[:300]}` model `{str(d.get('model'))[:300]}`; "
                    f"no input violating the property was found",
                    dict(engine="S", theorem_or_correspondence="engine S: xsv seq vs extracted Model/Store.v",
                         script=small, first_disagreement=d, case=name), no_input=True)
    return run


def search_harder(ctx, profile, footprint, n=400):
    scripts = []
    for i in range(n):
        g = S.Gen(random.Random(ctx.rnd.getrandbits(64)), profile)
        scripts.append(g.history(ctx.rnd.randrange(5, 30)))
    for pid in sorted(os.listdir(os.path.join(ROOT, "corpus"))) if os.path.isdir(os.path.join(ROOT, "corpus")) else []:
        for name, lines in corpus_scripts(pid):
            scripts.append(lines)
    results = S.run_many(scripts)
    for i, (lines, res) in enumerate(zip(scripts, results)):
        c = S.compare(res, footprint)
        if c["spec"]:
            return (f"search:{i}", lines, c["spec"][0])
    return None


def seq_replay(footprint):
    def replay(ctx, obj):
        lines = obj["script"]
        res = S.run_script(lines)
        c = S.compare(res, footprint)
        print(json.dumps(dict(corr=c["corr"][:3], spec=c["spec"][:3], incomplete=c["incomplete"]), indent=1)[:4000])
        if c["spec"]:
            d = c["spec"][0]
            ctx.violation(f"replay: op `{d['op'][:200]}` returned `{d['impl'][:300]}`, spec says `{d['spec'][:300]}`",
                          dict(engine="S", script=lines, first_disagreement=d))
        elif c["corr"] or c["incomplete"]:
            ctx.violation("replay: implementation and model disagree", dict(
                engine="S", script=lines, theorem_or_correspondence="engine S",
                first_disagreement=(c["corr"] or [c["incomplete"]])[0]), no_input=True)
        ctx.coverage.update(dict(evaluations=1, distinct_nontrivial=1, samples=[lines[:10]]))
    return replay


ALL_OPS = {"append", "import", "remove", "setnow", "gcstep", "drain", "reopen", "readsync", "read", "get", "head", "rawdump"}
READS = {"readsync", "read", "get", "head"}

P_CTX = dict(op_w={"register": 5, "append": 8, "import": 5, "remove": 5, "tick": 0.5, "gc": 1, "reopen": 3, "badctx": 1},
             p_import_reg=0.5, p_import_collide=0.05, p_import_flip=0.2, n_topics=3, w_lookalike=2,
             ttl_w={"-": 3, "forever": 2, "ephemeral": 2, "time": 1, "head": 1})
P_GENERAL = dict()
P_TOPICS = dict(op_w={"register": 2, "append": 12, "import": 4, "remove": 4, "tick": 1, "gc": 3, "reopen": 1, "badctx": 0.2},
                n_topics=9, p_nul=0.08, p_nul_head=0.3, p_import_collide=0.15)
P_TTL = dict(op_w={"register": 1.5, "append": 12, "import": 2, "remove": 2, "tick": 5, "gc": 6, "reopen": 1, "badctx": 0.1},
             n_topics=4, ttl_w={"-": 1, "forever": 1, "ephemeral": 2, "time": 5, "head": 5}, p_probe=0.3, w_lazyread=4, w_headburst=1.5)
P_EXPORT = dict(op_w={"register": 3, "append": 12, "import": 2, "remove": 3, "tick": 0.5, "gc": 2, "reopen": 0.5, "badctx": 0},
                n_topics=5, p_nul=0.0, p_import_collide=0.0, p_import_reg=0.3,
                ttl_w={"-": 3, "forever": 2, "ephemeral": 1, "head": 3})

TRUSTED = ("Trusted: Coq kernel; extraction (ExtrOcamlBasic) + OCaml driver; Rust harness + hooks (clock override, GC "
           "stepping); fjall (ordered KV, atomic batch), scru128 (fresh increasing ids), serde_json modelled as oracles. ")
HYPS = ["id oracle (scru128) hands out fresh ids < 2^128 (checked on every run: ids the implementation returned are fed to the model)",
        "refinement hypotheses hyp_all (Model/Spec.v), each a known-finding class or an input the API cannot produce: "
        "no context 2^128-1 (F8), "
        "imported registration frames carry a persistent TTL, id 0 is not an xs.context frame"]


def c20_run(ctx):
    """export -> import in any order with duplications into an empty store: the two real stores must
    be observably equal (impl vs impl), and each must agree with model and spec."""
    n = 25 if ctx.tier == "quick" else 400
    rnd = ctx.rnd
    srcs = []
    for i in range(n):
        g = S.Gen(random.Random(rnd.getrandbits(64)), dict(P_EXPORT, final_drain=True))
        srcs.append(g.history(rnd.randrange(6, 22 if ctx.tier == "quick" else 40)))
    res_a = S.run_many(srcs)
    imports, metas = [], []
    for lines, res in zip(srcs, res_a):
        impl = S.parse_trace(res["trace"])
        # the last all-contexts read is the export; the final probe block is everything after the last drain
        last_drain = max(i for i, (op, _) in enumerate(impl) if op[0] == "drain")
        probes = impl[last_drain + 1:]
        export = None
        for op, obs in probes:
            if op[0] == "readsync" and op[1:] == ["-", "-", "-"]:
                export = obs.split(" ")[3:]
                break
        frames = [f.split(",") for f in (export or [])]
        order = list(frames)
        rnd.shuffle(order)
        order += [rnd.choice(frames) for _ in range(rnd.randrange(0, 3))] if frames else []
        # registration frames after the frames that use them: put xs.context frames last half of the time
        if rnd.random() < 0.5:
            order.sort(key=lambda f: f[2] == S.xh(S.XS_CONTEXT))
        b = [f"import #{f[0]} #{f[1]} {f[2]} {f[3]} {f[4]} {f[5]}" for f in order]
        b.append("drain")
        for op, obs in probes:
            if op[0] in ("readsync", "read"):
                b.append(f"{op[0]} {'#' + op[1] if op[1] != '-' else '-'} {int(op[2], 16) if op[2] != '-' else '-'} "
                         f"{'#' + op[3] if op[3] != '-' else '-'}")
            elif op[0] == "get":
                b.append(f"get #{op[1]}")
            elif op[0] == "head":
                b.append(f"head {op[1]} #{op[2]}")
            elif op[0] == "append":   # context probe (ephemeral)
                b.append(f"append #{op[2]} {op[3]} - - ephemeral")
        imports.append(b)
        metas.append(probes)
    res_b = S.run_many(imports)
    n_cmp, worst, n_outside = 0, None, 0
    distinct = set()
    for i, (a_lines, b_lines, ra, rb, probes) in enumerate(zip(srcs, imports, res_a, res_b, metas)):
        ca, cb = S.compare(ra, ALL_OPS), S.compare(rb, ALL_OPS)
        for which, c, lines in (("source", ca, a_lines), ("imported", cb, b_lines)):
            if (c["corr"] or c["incomplete"]) and worst is None:
                worst = ("corr", f"{which} store of case {i}", lines, (c["corr"] or [c["incomplete"]])[0])
            if c["spec"] and (worst is None or worst[0] == "corr"):
                worst = ("spec", f"{which} store of case {i}", lines, c["spec"][0])
        if ca["hyp_broken_at"] is not None:
            # the source history left the theorem's hypotheses (wild histories only: context 2^128-1, ...);
            # "observably equal" is not claimed for it
            n_outside += 1
            continue
        implb = S.parse_trace(rb["trace"])
        pb = [x for x in implb if x[0][0] in ("readsync", "read", "get", "head", "append")]
        pa = [x for x in probes if x[0][0] in ("readsync", "read", "get", "head", "append")]
        if len(pa) == len(pb) and len(pa) > 0:
            distinct.add(hashlib.sha256("\n".join(b_lines).encode()).hexdigest())
        for (opa, obsa), (opb, obsb) in zip(pa, pb):
            n_cmp += 1
            if opa[0] == "append":
                obsa, obsb = obsa.split(" ")[1], obsb.split(" ")[1]   # accepted / rejected only (ids differ)
            if obsa != obsb and (worst is None or worst[0] == "corr"):
                worst = ("roundtrip", f"case {i}", a_lines + ["// ---- imported as:"] + b_lines,
                         dict(op=" ".join(opb), impl=obsb, spec=obsa))
    # the same through the route `xs import` uses: POST /import frame by frame, in the same permuted order, into a fresh server
    n_http = 0
    for i, (b_lines, ra, rb) in enumerate(zip(imports, res_a, res_b)):
        if n_http >= (4 if ctx.tier == "quick" else 40) or S.compare(ra, ALL_OPS)["hyp_broken_at"] is not None:
            continue
        order = [l.split(" ") for l in b_lines if l.startswith("import ")]
        if len(order) < 3:
            continue
        n_http += 1
        want = None
        for op, obs in S.parse_trace(rb["trace"]):
            if op[0] == "readsync" and op[1:] == ["-", "-", "-"]:
                want = obs.split(" ")[3:]
        # one frame the generated histories never hold: a meta record far larger than any buffer or "reasonable" body size
        # (the library and the xs-meta header accept it, so a source store can hold it and its export must import)
        big_id = (1 << 100) + 12345 + i
        big_meta = json.dumps({"index": ["entry-%06d" % k for k in range(ctx.rnd.choice([6000, 20000]))], "k": "v"}, separators=(",", ":"))
        order = list(order)
        order.insert(ctx.rnd.randrange(len(order) + 1), ["import", "#%x" % big_id, "#0", S.xh("big.meta"), "-", S.xh(big_meta), "-"])
        srv = H.Server("api")
        try:
            bad = None
            for t in order:
                def ttl_json(x):
                    return None if x == "-" else (x.split(":")[0] + ":%d" % int(x.split(":")[1], 16) if ":" in x else x)
                fj = dict(topic=S.unxh(t[3]).decode(), context_id=H.id_to_s(int(t[2][1:], 16)), id=H.id_to_s(int(t[1][1:], 16)),
                          hash=S.unxh(t[4]).decode() if t[4] != "-" else None,
                          meta=json.loads(S.unxh(t[5])) if t[5] != "-" else None, ttl=ttl_json(t[6]))
                st, hd, body = srv.request(H.render("POST", "/import", body=json.dumps(fj, separators=(",", ":"), ensure_ascii=False).encode()))
                if st != 200 and bad is None:
                    bad = (st, body[:120], fj)
            srv.gc()
            got = srv.dump()
            # (api::serve announces itself with an xs.start frame: not part of the import)
            got = [f for f in got if f.split(",")[2] != S.xh("xs.start")] if got is not None else None
            big = [f for f in (got or []) if int(f.split(",")[0], 16) == big_id]
            got = [f for f in got if int(f.split(",")[0], 16) != big_id] if got is not None else None
            if got is not None and bad is None and (len(big) != 1 or big[0].split(",")[4] != S.xh(big_meta)) and worst is None:
                worst = ("roundtrip", f"case {i} over HTTP", b_lines,
                         dict(op=f"POST /import of a frame with a {len(big_meta)}-byte meta, then read", impl=f"{len(big)} such frame(s), meta "
                              + ("differs" if big else "-"), spec="the frame, with its meta intact"))
        finally:
            srv.close()
        if bad is not None and worst is None:
            worst = ("roundtrip", f"case {i} over HTTP", b_lines, dict(op="POST /import " + json.dumps(bad[2])[:200], impl=f"{bad[0]} {bad[1]!r}", spec="200"))
        elif want is not None and got is not None and got != want and worst is None:
            worst = ("roundtrip", f"case {i} over HTTP", b_lines,
                     dict(op="POST /import x%d then read" % len(order), impl=" ".join(got)[:400], spec=" ".join(want)[:400]))
    ctx.coverage["stores_also_imported_over_http"] = n_http
    ctx.coverage.update(dict(
        evaluations=2 * n, distinct_nontrivial=len(distinct),
        rule="one evaluation = one real store: n source stores built by generated histories, n stores built by importing "
             "the source's export in a random permutation with duplications (registrations sometimes last); every probe "
             "(reads, gets, heads, context usability) is compared between the two real stores and against model and spec; "
             "non-trivial = the imported store answered every probe of the source",
        traces_validated_against_impl=2 * n, probe_observations_compared=n_cmp, sources_outside_hypotheses=n_outside,
        samples=[dict(source=srcs[0][:8], imported=imports[0][:8])]))
    if worst:
        kind, name, lines, d = worst
        if kind == "corr":
            ctx.violation(f"correspondence broken ({name}): op `{d.get('op', '')[:200]}` impl `{str(d.get('impl'))[:300]}` model "
                          f"`{str(d.get('model'))[:300]}`; no input violating the property was found",
                          dict(engine="S", theorem_or_correspondence="engine S: xsv seq vs extracted Model/Store.v",
                               script=lines, first_disagreement=d), no_input=True)
        else:
            ctx.violation(f"export/import is not faithful ({name}): probe `{d['op'][:200]}` on the imported store returned "
                          f"`{d['impl'][:300]}`, expected `{d['spec'][:300]}`",
                          dict(engine="S", script=lines, first_disagreement=d))


def c06_extra(ctx):
    """HTTP access path: head-follow scoped to a context (engine H, streaming connection)"""
    from . import httpengine as H2
    r = H2.head_follow_probe()
    foreign = [c for (c, t) in r["delivered"] if c != r["expected_ctx"]]
    ctx.coverage["head_follow_probe"] = dict(delivered=len(r["delivered"]), foreign=len(foreign))
    if foreign:
        ctx.violation(f"GET /head/t?follow&context=B streamed {len(foreign)} frame(s) of another context (same topic appended in the "
                      f"zero context) to the follower of context B", dict(engine="H", probe="head_follow_probe", result=str(r)[:600]))
    # ... and the follower that names no context is scoped to the zero context, not to all of them
    for sd in [ctx.rnd.randrange(1, 10 ** 9) for _ in range(2 if ctx.tier == "quick" else 12)]:
        hf = robust(V.head_follow_probe, "head follow probe")(sd)
        for v in hf["violations"][:1]:
            ctx.violation(v["what"][:600], dict(engine="V", probe="head_follow_probe", seed=sd))
    # handler dispatch and handler output contexts (engine V): a few scenarios with handlers in several contexts whose
    # scripts ask for foreign contexts with --context
    for sd in [ctx.rnd.randrange(1, 10 ** 9) for _ in range(3 if ctx.tier == "quick" else 30)]:
        rep = V.run_handler_scenario(sd, 12)
        for v in rep["violations"][:2]:
            ctx.violation("handler access path: " + v["what"][:600], dict(engine="V", seed=sd, script=v.get("script")))
    # a handler that had to subscribe again (it fell behind during a burst) is still scoped to its context
    lp = robust(lambda _sd: V.handler_lag_probe(), "handler lag probe")(0)
    ctx.coverage["lag_probe"] = lp
    if lp.get("foreign_served"):
        ctx.violation(f"a handler registered in context B was invoked for {lp['foreign_served']} of {lp['foreign_appended']} `trig` frames appended to the "
                      f"zero context (after it fell behind during a burst of {lp['appended']} frames and had to subscribe again)",
                      dict(engine="V", probe="handler_lag_probe", result=lp))
    # nu commands inside scripts: .cat / .head see only the script's context unless another one is named
    pr = V.nu_scope_probe()
    ctx.coverage["nu_scope_probe"] = {k: pr.get(k) for k in ("n_out", "content", "out_ctx")}
    if pr.get("error"):
        ctx.violation("nu scope probe: " + pr["error"], dict(engine="V", probe="nu_scope_probe", theorem_or_correspondence="engine V nu scope probe"), no_input=True)
    else:
        want = f"{pr['b']}|{pr['b']}|{pr['a']}"
        if pr["n_out"] != 1 or pr["triggers"] != [pr["go_b"]]:
            ctx.violation(f"a handler registered in context B was triggered {pr['n_out']} times by one `go` in A and one in B (expected once, by B's)",
                          dict(engine="V", probe="nu_scope_probe", result=str(pr)[:500]))
        elif pr["content"] != want or pr["out_ctx"] != [pr["b"]]:
            ctx.violation(f"inside a script running for context B: `.cat` saw contexts / `.head t` / `.head t --context A` = {pr['content']} "
                          f"(expected {want}); output landed in {pr['out_ctx']}", dict(engine="V", probe="nu_scope_probe", result=str(pr)[:500]))
    if foreign:
        pass
    elif len(r["delivered"]) < 2:
        ctx.violation("head-follow probe delivered fewer frames than expected (current head + one live frame of context B)",
                      dict(engine="H", probe="head_follow_probe", result=str(r)[:600], theorem_or_correspondence="engine H head-follow probe"), no_input=True)


def seq_entry(prop_file, profile, footprint, nq, nt, level_text, extra_assumptions=(), run=None, **kw):
    return dict(prop_file=prop_file, run=run or seq_run(profile, footprint, nq, nt, **kw), replay=seq_replay(ALL_OPS),
                level_text=level_text, level_note=TRUSTED + "Hypotheses of the theorems: see evidence.assumptions.",
                assumptions=HYPS + list(extra_assumptions), engine="S")


REGISTRY = {
    "C01": seq_entry("Props/C01.v", P_GENERAL, ALL_OPS, 250, 5000,
        "Coq: refinement theorem (every observation of every operation of the byte-level store model equals the abstract "
        "spec's, for every admissible history, Proofs/Refine.v) + closed form of both read programs (spec_read: filter "
        "scope/after/unexpired, firstn limit), sortedness, NoDup, get = find. Tie to /repo: generated histories "
        "(append/import/remove/clock/GC steps/reopen, adversarial topics, adjacent contexts, all TTL kinds) run on the real "
        "Store and on the extracted model and spec; every observation compared."),
    "C05": seq_entry("Props/C05.v", P_TOPICS, {"get", "head", "readsync", "read", "append", "import"}, 250, 5000,
        "Coq: lookups_agree (get <-> all-contexts read <-> own-context read) and head = newest frame of exactly (context, "
        "topic) for every admissible history and arbitrary byte strings (prefix exactness of ctx||topic||0 proved for all "
        "topics); NUL topics rejected without trace. Tie: engine S with prefix-related/delimiter-adjacent topic pool."),
    "C06": seq_entry("Props/C06.v", P_CTX, {"readsync", "read", "head", "get"}, 200, 3000,
        "Coq (store-level paths): every frame returned by read_sync / streaming read / head scoped to context b has "
        "context b, for every admissible history; range exactness [ctx, ctx+1) incl. adjacent ids. HTTP routes, nu "
        "commands and handler dispatch: the HTTP routes taking a context go through these store paths (C13 faithfulness); the "
        "one route that builds its own subscription, head-follow, is probed over a streaming connection on every run.",
        ["handler dispatch and handler output contexts are C14/C15's (engine V); nu .cat/.head scoping is exercised there through scripts"],
        extra=lambda ctx: c06_extra(ctx)),
    "C07": seq_entry("Props/C07.v", P_CTX, {"append", "import", "remove", "reopen", "get", "head", "readsync", "read"}, 200, 3000,
        "Coq: a rejected append leaves the state unchanged; acceptance is exactly registry membership; xs.context frames "
        "accepted iff zero context, stored Forever, registered; the registry is a function of the live frames at every "
        "reachable state (imports included) and is unchanged by reopen. Tie: registration/removal/import/reopen histories "
        "on the real Store with real process restarts."),
    "C08": seq_entry("Props/C08.v", P_TTL, {"get", "readsync", "read", "head", "gcstep", "drain"}, 250, 5000,
        "Coq: every way a frame can leave the live list in one step (explicit remove, overwrite by import, GC Remove "
        "task, GC CheckHead task of exactly its (context, topic)); CheckHead evicts only frames outside the K newest of "
        "exactly (c,t) and never touches other topics/contexts; reads never remove; Remove tasks are queued only for "
        "expired frames. Tie: TTL-heavy histories with clock stepping to expiry-1/expiry/expiry+1 and single GC steps."),
    "C09": seq_entry("Props/C09.v", P_TTL, {"append", "get", "readsync", "read", "head", "reopen", "gcstep", "drain"}, 250, 5000,
        "Coq: ephemeral appends change no partition/registry/queue; expired time:N frames are returned by neither read "
        "path at any point of any admissible history and are queued for removal by an unlimited read; a head:N "
        "collection leaves <= N frames of (c,t), the newest ones. Tie: as C08 plus both read paths."),
    "C20": seq_entry("Props/C20.v", P_EXPORT, ALL_OPS, 0, 0,
        "Coq: import in any order/with duplicates yields the same live list, equal to the source (ids, order, fields); "
        "position kept; idempotent; NUL rejected whole; registry is a function of the live list; the concrete store "
        "refines the abstract one. Tie: real source stores exported and imported (permuted, duplicated, registrations "
        "last) into fresh real stores; every probe compared between the two real stores and with model+spec.",
        ["xs.nu's .export/.import cannot run here (no nu binary); the HTTP import route is exercised by engine H"],
        run=c20_run),
}


# ---------------------------------------------------------------------------------------------
# Engine C properties (schedules)
from . import schedengine as E


def c02_oracle(lines, out, complete=True):
    """directly on what the implementation showed: every poller's accumulation is strictly
    increasing, and after the final polls all pollers hold the same frames (nobody missed one);
    every follower's real frames arrive in strictly increasing id order."""
    cons, polls, _ = E.observed(lines, out)
    bad = []
    for p, acc in polls.items():
        if any(b <= a for a, b in zip(acc, acc[1:])):
            bad.append(f"poller {p} received frames out of order or twice: {acc}")
    if len(polls) >= 2 and complete:   # every poller polled once more at the very end
        sets = {p: set(acc) for p, acc in polls.items()}
        allf = set().union(*sets.values())
        for p, st in sets.items():
            if st != allf:
                bad.append(f"poller {p} (polling with last-id) never received frames {sorted(allf - st)} "
                           f"although they are committed (got {polls[p]})")
    for k, items in cons.items():
        ranks = [int(i.split('#')[1].split('@')[0]) for i in items if i.startswith("real#") and "?" not in i]
        if any(b <= a for a, b in zip(ranks, ranks[1:])):
            bad.append(f"follower {k} was sent frames out of id order: {ranks}")
    return bad


def stress_for(which):
    def stress(ctx):
        runs = 1 if ctx.tier == "quick" else 6
        info = []
        for i in range(runs):
            w, per = (6, 60) if ctx.tier == "quick" else (8, 150)
            d = E.run_stress(w, per, 2, ctx.rnd.randrange(1, 10 ** 6))
            bad = E.stress_oracle(d, which)
            info.append(dict(writers=w, per_writer=per, appended=d.get("appended"), write_s=d.get("write_s"), violations=len(bad)))
            if bad:
                ctx.violation("hook-free stress (%d writers x %d appends, pollers, followers): " % (w, per) + "; ".join(bad)[:700],
                              dict(engine="C-stress", stress_args=[w, per, 2], findings=bad[:10],
                                   followers=[dict(name=f["name"], n_items=len(f["items"]), closed=f["closed"]) for f in d.get("followers", [])]))
        return info
    return stress


def conc_run(pid, profile, oracle, nq, nt, steps=(20, 40, 80), stress=None):
    def run(ctx):
        n = nq if ctx.tier == "quick" else nt
        rnd = ctx.rnd
        # 1. refutation corpus: schedules of the pre-fix protocol. If the implementation follows one
        #    to the end it exhibits the violation; the oracle then judges what it showed.
        corpus_dir = os.path.join(ROOT, "corpus", pid)
        n_corpus = 0
        for fn in sorted(os.listdir(corpus_dir)) if os.path.isdir(corpus_dir) else []:
            if not fn.endswith(".json"):
                continue
            w = json.load(open(os.path.join(corpus_dir, fn)))
            lines = E.model_labels(w["config"], w["labels"], w.get("locked", False))
            cur = bool(w.get("locked", False))     # a schedule of the CURRENT protocol (regression probe) or of a refuted variant
            r = E.run_schedule(lines, short_ms=250, long_ms=5000 if cur else 3000, keep_going=cur)
            n_corpus += 1
            bad = oracle(lines, r["out"], r["complete"] and not r["mismatch"])
            if bad:
                ctx.violation((f"regression schedule {fn}: " if cur else f"the implementation follows the refutation schedule {fn} ({w['what']}): ")
                              + "; ".join(bad)[:600],
                              dict(engine="C", schedule=lines, harness_output=r["out"][-40:], witness=fn))
            elif cur and (r["mismatch"] or not r["complete"]):
                ctx.violation(f"correspondence broken on regression schedule {fn}: {str(r['mismatch'])[:400]}; no input violating the "
                              f"property was found", dict(engine="C", schedule=lines, harness_output=r["out"][-40:],
                                                         theorem_or_correspondence="engine C: " + fn), no_input=True)
        # 1b. known findings are re-demonstrated by their schedule on every run
        for kf in ctx.known:
            if not kf["probe"].endswith(".json"):
                continue
            w = json.load(open(os.path.join(ROOT, kf["probe"])))
            lines = E.model_labels(w["config"], w["labels"], w.get("locked", True))
            r = E.run_schedule(lines, short_ms=250, long_ms=5000)
            cons, _, final = E.observed(lines, r["out"])
            got = [int(i.split("#")[1].split("@")[0]) for i in cons.get(kf["expect"]["follower"], []) if i.startswith("real#")]
            if r["mismatch"] or not r["complete"]:
                ctx.violation(f"known-finding probe {kf['key']}: the implementation does not follow the model's schedule: {str(r['mismatch'])[:300]}",
                              dict(engine="C", schedule=lines, theorem_or_correspondence="engine C probe " + kf["probe"],
                                   harness_output=r["out"][-30:]), no_input=True)
            elif got == kf["expect"]["delivered"] and kf["expect"]["missing_rank"] not in got:
                ctx.known_lines.append(f"KNOWN-FINDING: property={ctx.pid} {kf['key']}: {kf['what']}")
        # 2. random schedules of the model (fixed protocol): every predicted arrival / item / poll must match
        scheds, cfgs = [], []
        for i in range(n):
            cfg = E.gen_config(random.Random(rnd.getrandbits(64)), profile)
            cfgs.append(cfg)
            scheds.append(E.model_schedule(cfg, True, rnd.randrange(10 ** 9), rnd.choice(steps)))
        res = E.run_many(scheds)
        n_steps = sum(r["n_ok"] for r in res)
        distinct = {hashlib.sha256("\n".join(s).encode()).hexdigest() for s, r in zip(scheds, res) if r["n_ok"] >= 10}
        first_mismatch = None
        label_hist = {}
        for s, r in zip(scheds, res):
            for l in s:
                if l.startswith("go "):
                    k = l.split()[1]
                    label_hist[k] = label_hist.get(k, 0) + 1
            bad = oracle(s, r["out"], r["complete"] and not r["mismatch"])
            if bad:
                ctx.violation("schedule replay: " + "; ".join(bad)[:600],
                              dict(engine="C", schedule=s, harness_output=r["out"][-40:]))
            if (r["mismatch"] or not r["complete"]) and first_mismatch is None:
                first_mismatch = (s, r)
        # 3. hook-free stress judged by the oracle alone (independent of the model)
        stress_info = None
        if stress:
            stress_info = stress(ctx)
        ctx.coverage.update(dict(
            evaluations=len(scheds) + n_corpus, distinct_nontrivial=len(distinct),
            rule="one evaluation = one schedule generated from the extracted transition system (random walk over enabled "
                 "labels + drive to quiescence) replayed on the real code by parking threads at the sync points; every "
                 "predicted park position, consumed item, poll result and channel state is compared; non-trivial = at "
                 "least 10 scheduled steps; distinct = distinct schedule text. Plus the refutation corpus and a hook-free stress.",
            traces_validated_against_impl=len(scheds), steps_replayed=n_steps, label_histogram=label_hist,
            refutation_schedules=n_corpus, stress=stress_info,
            samples=[dict(schedule=scheds[0][:25])] if scheds else [dict(note="corpus only")]))
        if first_mismatch and not any(not v["no_input"] for v in ctx.violations):
            s, r = first_mismatch
            ctx.violation("correspondence broken: the implementation does not follow the model's schedule: "
                          + str(r["mismatch"] or ("incomplete run rc=%s %s" % (r["rc"], r["stderr"][-300:])))[:500]
                          + "; no input violating the property was found",
                          dict(engine="C", theorem_or_correspondence="engine C: xsv sched vs extracted Model/Conc.v",
                               schedule=s, harness_output=r["out"][-40:]), no_input=True)
    return run


def conc_replay(oracle):
    def replay(ctx, obj):
        s = obj["schedule"]
        r = E.run_schedule(s, long_ms=5000)
        print("\n".join(r["out"][-30:]))
        bad = oracle(s, r["out"], r["complete"] and not r["mismatch"])
        if bad:
            ctx.violation("replay: " + "; ".join(bad)[:600], dict(engine="C", schedule=s, harness_output=r["out"][-40:]))
        elif r["mismatch"]:
            ctx.violation("replay: implementation does not follow the schedule: " + r["mismatch"][:400],
                          dict(engine="C", schedule=s, theorem_or_correspondence="engine C"), no_input=True)
        ctx.coverage.update(dict(evaluations=1, distinct_nontrivial=1, samples=[s[:20]]))
    return replay


P_C02 = dict(followers=[0, 1, 1, 2], pollers=[2, 2, 3], writers=[2, 2, 3, 4], p_limit=0.1, p_pulse=0.05)

REGISTRY["C02"] = dict(
    prop_file="Props/C02.v", engine="C",
    run=conc_run("C02", P_C02, c02_oracle, 60, 1500, stress=stress_for("C02")),
    replay=conc_replay(c02_oracle),
    level_text="Coq: over the transition system of Store::append/read (labels = code between two sync points), for any "
               "number of writers/pollers/followers and every schedule: commit order = broadcast order = id order, the "
               "visible stream (in any scope) only grows at its end, a last-id poller always holds exactly a prefix and "
               "after each poll the whole stream, mutual exclusion of the append critical section; the pinned unlocked "
               "protocol is refuted by a computed witness. Tie: model-generated schedules replayed on the real code by "
               "parking real threads at the sync points (every predicted arrival, incl. 'blocked on the lock', checked); the "
               "refutation schedule is replayed on every run.",
    level_note=TRUSTED + "std::sync::Mutex and scru128's monotonic generator are oracles (exercised by the schedules and the "
               "hook-free stress). Imports are outside this transition system (excepted by the property).",
    assumptions=["ids are handed out in increasing order by one process-wide generator (scru128; false after a >10 s clock rollback)",
                 "fjall range iterators are live with a one-item look-ahead (observed; matters for C03, not C02)"],
)


def sched_truth(lines):
    """Ground truth from a schedule file: per rank (ctx, eph, ok, pre?), line of commit/bcast,
    follower options, line of each follower's subscribe."""
    frames, order = {}, []
    rank = 0
    wp, wnext, fol, sub_line, bcast_line, commit_line = {}, {}, {}, {}, {}, {}
    for ln, l in enumerate(lines):
        t = l.split()
        if not t:
            continue
        if t[0] == "ctx":
            frames[rank] = dict(ctx=0, eph=False, ok=True, pre=True); bcast_line[rank] = -1; commit_line[rank] = -1; rank += 1
        elif t[0] == "pre":
            for _ in range(int(t[2]) if len(t) > 2 else 1):
                frames[rank] = dict(ctx=int(t[1]), eph=False, ok=True, pre=True); bcast_line[rank] = -1; commit_line[rank] = -1; rank += 1
        elif t[0] == "writer":
            wp[int(t[1])] = []
            for p in t[2:]:
                p, _, reps = p.partition("*")
                wp[int(t[1])] += [(int(p.split(":")[0]), p.split(":")[1] == "e", p.split(":")[2] == "ok")] * (int(reps) if reps else 1)
            wnext[int(t[1])] = 0
        elif t[0] == "follower":
            fol[int(t[1])] = dict(follow=t[2] == "1", tail=t[3] == "1", last=None if t[4] == "-" else int(t[4]),
                                  limit=None if t[5] == "-" else int(t[5]), ctx=None if t[6] == "-" else int(t[6]),
                                  pulse=t[7] != "-")
        elif t[0] == "go" and t[1] == "burst":
            w = int(t[2])
            nxt = max(frames) + 1 if frames else 0
            while wnext[w] < len(wp[w]):
                c, eph, ok = wp[w][wnext[w]]; wnext[w] += 1
                frames[nxt] = dict(ctx=c, eph=eph, ok=ok, pre=False)
                if ok:
                    commit_line[nxt] = ln; bcast_line[nxt] = ln
                nxt += 1
        elif t[0] == "go":
            exp = t[t.index("=>") + 1:] if "=>" in t else []
            for e in exp:
                if "@after_id#" in e:
                    w = int(e[1:e.index("@")]); r = int(e.split("#")[1])
                    c, eph, ok = wp[w][wnext[w]]; wnext[w] += 1
                    frames[r] = dict(ctx=c, eph=eph, ok=ok, pre=False)
                if "@after_commit#" in e:
                    commit_line[int(e.split("#")[1])] = ln
                if "@after_broadcast#" in e:
                    bcast_line[int(e.split("#")[1])] = ln
            if t[1] == "subscribe":
                sub_line[int(t[2])] = ln
    return frames, fol, sub_line, commit_line, bcast_line


def follow_oracle(which):
    """C03 / C11 judged directly on what the implementation delivered."""
    def oracle(lines, out, complete=True):
        cons, polls, final = E.observed(lines, out)
        frames, fol, sub_line, commit_line, bcast_line = sched_truth(lines)
        bad = []
        for k, o in fol.items():
            items = cons.get(k, [])
            reals = [int(i.split('#')[1].split('@')[0]) for i in items if i.startswith("real#") and "?" not in i]
            scope = lambda r: o["ctx"] is None or frames.get(r, {}).get("ctx") == o["ctx"]
            if which == "C03":
                if any(b <= a for a, b in zip(reals, reals[1:])):
                    bad.append(f"follower {k}: frames delivered out of order or twice: {reals}")
                for r in reals:
                    if r in frames and not scope(r):
                        bad.append(f"follower {k} (context {o['ctx']}) was sent frame #{r} of context {frames[r]['ctx']}")
                    if o["last"] is not None and r <= o["last"]:
                        bad.append(f"follower {k} (last-id #{o['last']}) was sent frame #{r}")
                nthr = sum(1 for i in items if i == "threshold")
                if nthr > 1:
                    bad.append(f"follower {k}: {nthr} threshold markers")
                if k in sub_line:
                    existed = [r for r, f in frames.items() if f["ok"] and not f["eph"] and scope(r)
                               and (o["last"] is None or r > o["last"]) and commit_line.get(r, 10 ** 9) < sub_line[k]]
                    if "threshold" in items and not o["tail"]:
                        before = [int(i.split('#')[1].split('@')[0]) for i in items[:items.index("threshold")] if i.startswith("real#") and "?" not in i]
                        missing = [r for r in existed if r not in before]
                        if missing:
                            bad.append(f"follower {k}: frames {missing} existed when the read began but were not delivered before the threshold")
                    # completeness is owed only "for as long as its stream is open" (a lagging follower's stream ends: C11)
                    if o["follow"] and not o["tail"] and o["limit"] is None and complete and final.get(k, "open") == "open":
                        if nthr != 1:
                            bad.append(f"follower {k}: expected exactly one threshold marker, got {nthr}")
                        stored = [r for r, f in frames.items() if f["ok"] and not f["eph"] and scope(r)
                                  and (o["last"] is None or r > o["last"]) and commit_line.get(r, 10 ** 9) < 10 ** 9]
                        missing = [r for r in stored if r not in reals]
                        if missing:
                            bad.append(f"follower {k}: stored in-scope frames {missing} were never delivered (delivered {reals})")
            if which in ("C11", "C03"):
                # never a silent gap: once a stored in-scope frame after the first delivered one is skipped,
                # nothing later may be delivered (the stream has to end instead)
                if k in sub_line and reals:
                    stored = sorted(r for r, f in frames.items() if f["ok"] and not f["eph"] and scope(r)
                                    and commit_line.get(r, 10 ** 9) < 10 ** 9)
                    got = set(reals)
                    first = reals[0]
                    for r in reals:
                        skipped = [x for x in stored if first < x < r and x not in got]
                        if skipped and not o["tail"]:
                            bad.append(f"follower {k} continued past frames it never delivered: got #{r} although {len(skipped)} "
                                       f"stored in-scope frames before it (e.g. {skipped[:3]}) were skipped")
                            break
            if which == "C11":
                if o["limit"] is not None and len(reals) > o["limit"]:
                    bad.append(f"follower {k}: limit={o['limit']} but {len(reals)} frames were delivered: {reals}")
                if o["tail"] and k in sub_line:
                    old = [r for r in reals if bcast_line.get(r, 10 ** 9) < sub_line[k]]
                    if old:
                        bad.append(f"follower {k} (tail) was sent historical frames {old}")
                if o["limit"] is None and not o["tail"] and not o["follow"] and any(i == "threshold" for i in items):
                    bad.append(f"follower {k}: threshold marker delivered to a non-following reader")
                if any(i == "pulse" for i in items) and not o["pulse"]:
                    bad.append(f"follower {k}: pulse delivered to a subscriber that did not ask for a heartbeat")
                if complete and o["limit"] is not None and len(reals) >= o["limit"] and final.get(k) == "open":
                    bad.append(f"follower {k}: limit={o['limit']} reached ({len(reals)} frames delivered) but the stream was never ended"
                               + (" (heartbeat keeps it open)" if o["pulse"] else ""))
            # synthetic frames are never stored: pollers must never see them (ranks are real frames only)
        return bad
    return oracle


P_C03 = dict(followers=[1, 2, 2, 3], pollers=[0, 0, 1], writers=[1, 2, 2, 3], p_limit=0.0, p_pulse=0.1, p_tail=0.2,
             hist=[0, 0, 1, 2, 3, 5], p_follow=0.95)
P_C11 = dict(followers=[1, 2, 2, 3], pollers=[0, 0, 1], writers=[1, 2, 2], p_limit=0.7, p_pulse=0.3, p_tail=0.3,
             hist=[0, 1, 2, 3, 3, 5], p_follow=0.8)

REGISTRY["C03"] = dict(
    prop_file="Props/C03.v", engine="C",
    run=conc_run("C03", P_C03, follow_oracle("C03"), 60, 1500, stress=stress_for("C03")),
    replay=conc_replay(follow_oracle("C03")),
    level_text="(see Props/C03.v) follower protocol over the transition system of Store::read/append", level_note=TRUSTED,
    assumptions=[])
REGISTRY["C11"] = dict(
    prop_file="Props/C11.v", engine="C",
    run=conc_run("C11", P_C11, follow_oracle("C11"), 60, 1500, stress=stress_for("C11")),
    replay=conc_replay(follow_oracle("C11")),
    level_text="(see Props/C11.v) follow options over the transition system of Store::read/append", level_note=TRUSTED,
    assumptions=[])


# ---------------------------------------------------------------------------------------------
# Engine K (crash)
from . import crashengine as K


def crash_workload(r, n_ops):
    big_meta = '{"m":"' + "v" * 9000 + '"}'
    lines = [f"append - {S.xh(S.XS_CONTEXT)} - - -"]
    frames = [0]
    ctxs = ["-", "@0"]
    topics = ["a", "ab", "b"]
    for i in range(n_ops):
        k = r.random()
        if k < 0.55:
            ttl = r.choice(["-", "-", "forever", "head:1", "head:2", "time:%x" % (2 ** 40)])
            content = r.choice(["-", "-", S.xh(b"hello"), S.xh(b"z" * 9000), S.xh(bytes([r.randrange(256) for _ in range(20)]))])
            meta = r.choice(["-", S.xh('{"k":1}'), S.xh(big_meta)])
            lines.append(f"append {r.choice(ctxs)} {S.xh(r.choice(topics))} {content} {meta} {ttl}")
            frames.append(len(lines) - 1)
        elif k < 0.65:
            lines.append(f"append - {S.xh(S.XS_CONTEXT)} - - -")
            ctxs.append(f"@{len(lines) - 1}")
            frames.append(len(lines) - 1)
        elif k < 0.78:
            lines.append(f"import #{r.randrange(1, 2 ** 30):x} {r.choice(ctxs)} {S.xh(r.choice(topics))} - {r.choice(['-', S.xh(big_meta)])} -")
            frames.append(len(lines) - 1)
        elif k < 0.9 and frames:
            lines.append(f"remove @{r.choice(frames)}")
        else:
            lines.append(r.choice(["gcstep", "drain"]))
    return lines


def c04_run(which):
    def run(ctx):
        K.build_shim()
        n_w = 3 if ctx.tier == "quick" else 40
        variants = ("kill", "power", "torn1", "torn2", "torn3", "torn2p")
        tot, kinds, states = 0, {}, {}
        samples = []
        scripted = [
            # the collector's own removals must be durable before anything that depends on them is acknowledged: an explicit
            # remove of a frame the collector already dropped returns at once - and the frame must stay gone after a power loss
            [f"append - {S.xh(S.XS_CONTEXT)} - - -", f"append - {S.xh('a')} - - head:1", f"append - {S.xh('a')} - - head:1", "drain",
             "remove @1", f"append - {S.xh('b')} - - -", f"append @0 {S.xh('b')} - - -"],
            [f"append - {S.xh(S.XS_CONTEXT)} - - -", f"append @0 {S.xh('a')} - - head:2", f"append @0 {S.xh('a')} - - -",
             f"append @0 {S.xh('a')} - - head:1", "gcstep", "remove @1", "remove @2", f"import #5 @0 {S.xh('a')} - - -"],
        ]
        for w in range(n_w + len(scripted)):
            script = scripted[w] if w < len(scripted) else crash_workload(random.Random(ctx.rnd.getrandbits(64)), ctx.rnd.randrange(7, 13))
            r = K.run_workload(script, variants=variants)
            if r.get("error"):
                ctx.violation("crash harness: " + r["error"], dict(engine="K", script=script, theorem_or_correspondence="engine K"), no_input=True)
                continue
            if w == 0:
                samples.append(dict(script=script[:8], tracked_calls_of_workload=r["total"] - r["n0"], call_kinds=r["kinds"][:20]))
            for x in r["results"]:
                tot += 1
                states[x.get("state") or x["kind"]] = states.get(x.get("state") or x["kind"], 0) + 1
                if x["kind"] == "violation":
                    ctx.violation(("torn write, " if x.get("torn") else "") + ("power loss: " if x.get("power") else "process kill: ") + x["what"][:700],
                                  dict(engine="K", script=script, crash_at=x["n"], torn=x.get("torn"), power=x.get("power"),
                                       acked=x.get("acked"), inflight=x.get("inflight")))
                elif x["kind"] == "harness-error":
                    ctx.violation(f"crash harness error at call {x['n']}: rc={x.get('rc')} {x.get('err', '')[-300:]}",
                                  dict(engine="K", script=script, theorem_or_correspondence="engine K"), no_input=True)
        # the HTTP routes: every mutating request is ONE journal commit followed by one fsync (an import that overwrites a
        # stored id included) - the server runs under the shim in counting mode
        ap = robust(lambda _sd: V.http_write_atomicity_probe(), "http write atomicity probe")(0)
        for kind in ("import_fresh", "import_overwrite", "append", "remove"):
            if tuple(ap.get(kind, ())) != (1, 1):
                ctx.violation(f"the HTTP request `{kind}` wrote {ap.get(kind)} (journal writes, fsyncs) - one atomic batch and one fsync are "
                              f"what makes the operation all-or-nothing at every crash instant (all kinds: "
                              f"{ {k: ap.get(k) for k in ('import_fresh', 'import_overwrite', 'append', 'remove')} })",
                              dict(engine="K", probe="http_write_atomicity_probe", result=ap))
                break
        ctx.coverage["http_write_atomicity_probe"] = ap
        ctx.coverage.update(dict(
            evaluations=tot, distinct_nontrivial=tot - states.get("no-crash", 0),
            rule="one evaluation = one crash image: a generated workload (append/import/remove/GC, small and >8KiB frames, "
                 "content in CAS) is killed at one tracked system call on the store directory (write/pwrite/fsync/fdatasync/"
                 "rename/ftruncate/creat/unlink; variants: process kill, power loss = un-fsynced bytes zeroed, torn write at "
                 "1/4, 2/4, 3/4 of the buffer), then reopened by a fresh process and fully observed; the survivor must open, be "
                 "self-consistent (by id <-> in stream <-> in its context <-> head), hold the content of every hashed frame "
                 "(kill images), and equal the model state after k or k+1 operations with every acknowledged operation included",
            fault_points=tot, outcome_histogram=states, workloads=n_w, samples=samples or [dict(note="no workload ran")]))
    return run


REGISTRY["C04"] = dict(
    prop_file="Props/C04.v", engine="K", run=c04_run("C04"),
    replay=lambda ctx, obj: c04_replay(ctx, obj),
    level_text="Coq: over a journal model of the storage stack (user buffer / OS cache / disk; recovery replays the complete "
               "batches) the xs protocol - ONE batch over the three partitions per insert/remove, acknowledged after "
               "persist(SyncAll) - gives: at every crash instant inside operation k the recovered state is the state after k "
               "or k+1 operations (process kill and power loss), acknowledged operations are always included, and the "
               "recovered partitions are those of a store-model state satisfying the refinement invariant InvZ (the three partitions "
               "are the key-sorted encodings of one id-sorted list of valid frames: by-id / in-context / under-topic agree, C01/C05) "
               "for every admissible journal (C04_crash_image_consistent, C04_power_image_consistent). Dropping "
               "the persist is refuted by a computed witness. Tie + validation of the journal model against real fjall "
               "recovery: fault enumeration at system-call granularity with an LD_PRELOAD shim (every tracked call of generated "
               "workloads, kill / power-loss / torn-write variants), survivors reopened by a fresh process and compared with "
               "the extracted model.",
    level_note=TRUSTED + "What the kernel and the disk do with un-fsynced bytes is modelled (power loss is emulated by zeroing "
               "them), not observed. The crash shim (shim/crashshim.c) and fjall's recovery code are in the trusted/modelled base.",
    assumptions=["fjall journal = sequence of atomic batches; recovery discards an incomplete tail batch (validated on every run by the crash enumeration)",
                 "content durability against power loss is left to cacache (not claimed, as in the property)"],
)


def c04_replay(ctx, obj):
    K.build_shim()
    x = K.run_crash_point(obj["script"], obj["crash_at"], torn=obj.get("torn") or 0, power=bool(obj.get("power")))
    print(json.dumps(x)[:1500])
    if x["kind"] == "violation":
        ctx.violation("replay: " + x["what"][:600], dict(engine="K", script=obj["script"], crash_at=obj["crash_at"],
                                                           torn=obj.get("torn"), power=obj.get("power")))
    ctx.coverage.update(dict(evaluations=1, distinct_nontrivial=1, samples=[obj["script"][:8]]))


# ---------------------------------------------------------------------------------------------
# Engine H (HTTP)
from . import httpengine as H


def c13_run(ctx):
    n_seq = 12 if ctx.tier == "quick" else 250
    n_req = 40 if ctx.tier == "quick" else 60
    seeds = [ctx.rnd.randrange(1, 10 ** 9) for _ in range(n_seq)]
    from concurrent.futures import ThreadPoolExecutor
    with ThreadPoolExecutor(max_workers=8) as ex:
        results = list(ex.map(robust(lambda sd: H.run_sequence(sd, n_req, fixed=True), 'http sequence'), seeds))
    kinds, statuses, n_total = {}, {}, 0
    first_mismatch = None
    for sd, r in zip(seeds, results):
        n_total += r["n"]
        for k in r["kinds"]:
            kinds[k] = kinds.get(k, 0) + 1
        for s_ in r["statuses"]:
            statuses[s_] = statuses.get(s_, 0) + 1
        for d in r["dropped"]:
            ctx.violation(f"request received no HTTP response (connection dropped): `{d['request'][:200]}`",
                          dict(engine="H", seed=sd, n_requests=n_req, request_index=d["n"], raw_request=d["raw"], server_stderr=r.get("stderr_tail", "")))
        for n in r["not_live"]:
            ctx.violation(f"server no longer answers GET /version after request #{n}", dict(engine="H", seed=sd, n_requests=n_req, request_index=n))
        if r["model_rc"] != 0 and first_mismatch is None:
            first_mismatch = (sd, dict(request="(model driver failed)", impl="", model=r["model_err"]))
        for m in r["mismatches"]:
            # a concrete deviation from the store semantics the route stands for
            if first_mismatch is None:
                first_mismatch = (sd, m)
        # no 5xx at all on the unchanged tree: the only 5xx the model has is a remove the store itself fails (C13_5xx_only_failed_remove)
        for n, (k, s_) in enumerate(zip(r["kinds"], r["statuses"])):
            if s_.startswith("5"):
                ctx.violation(f"request #{n} ({k}) answered {s_}: a request the store refuses is a client error (4xx), and nothing else may fail",
                              dict(engine="H", seed=sd, n_requests=n_req, request_index=n, raw_request=r["raws"][n]))
    # GET /head/<topic>?follow=true stands for `head` kept up to date: scoped like head (zero context when none is named)
    n_hf = 0
    for sd in [ctx.rnd.randrange(1, 10 ** 9) for _ in range(2 if ctx.tier == "quick" else 12)]:
        hf = robust(V.head_follow_probe, "head follow probe")(sd)
        n_hf += hf["probes"]
        for v in hf["violations"][:1]:
            ctx.violation(v["what"][:600], dict(engine="V", probe="head_follow_probe", seed=sd))
    ctx.coverage["head_follow_probes"] = n_hf
    if first_mismatch and not any(not v["no_input"] for v in ctx.violations):
        sd, m = first_mismatch
        ctx.violation(f"HTTP route deviates from the store operation it stands for: request `{m['request'][:200]}` answered "
                      f"`{m['impl'][:250]}`, the front-end model over the store says `{m['model'][:250]}`"
                      + (f"; store after the request: impl `{m.get('impl_dump', '')[:150]}` model `{m.get('model_dump', '')[:150]}`"
                         if m.get("impl_dump") != m.get("model_dump") else ""),
                      dict(engine="H", seed=sd, n_requests=n_req, request_index=m.get("n"), raw_request=m.get("raw"), first_disagreement=m))
    ctx.coverage.update(dict(
        evaluations=n_total, distinct_nontrivial=len(seeds),
        rule="one evaluation = one raw HTTP/1.1 request sent over the unix socket to the real api::serve (in-process), on a new "
             "connection, inside a generated sequence over all routes with valid and invalid ids, contexts, TTLs, option "
             "strings, xs-meta payloads (bad base64 / UTF-8 / JSON / non-ASCII bytes) and bodies (empty, binary, 9000 bytes); "
             "after each: response class + decoded body and the full store dump (through the Rust API) are compared with the "
             "extracted front-end model, plus a liveness probe after every 5xx / dropped connection; distinct_nontrivial "
             "counts distinct request sequences",
        traces_validated_against_impl=len(seeds), request_kinds=kinds, status_histogram=statuses,
        samples=[dict(seed=seeds[0], first_requests=results[0]["sample"])]))


def c13_replay(ctx, obj):
    r = H.run_sequence(obj["seed"], obj.get("n_requests", 40), fixed=True)
    print(json.dumps(dict(dropped=r["dropped"][:3], mismatches=r["mismatches"][:2]), indent=1)[:3000])
    for d in r["dropped"]:
        ctx.violation(f"replay: request received no HTTP response: `{d['request'][:200]}`", dict(engine="H", seed=obj["seed"]))
    if r["mismatches"] and not r["dropped"]:
        m = r["mismatches"][0]
        ctx.violation(f"replay: `{m['request'][:200]}` answered `{m['impl'][:200]}`, model `{m['model'][:200]}`", dict(engine="H", seed=obj["seed"]))
    ctx.coverage.update(dict(evaluations=r["n"], distinct_nontrivial=2, samples=[r["sample"]]))


REGISTRY["C13"] = dict(
    prop_file="Props/C13.v", engine="H", run=c13_run, replay=c13_replay,
    level_text="Coq: the front-end model (routing outcome x handler over the store model) is total - every request value, "
               "whatever component is malformed, yields a response, never a dropped connection - every >= 400 response leaves "
               "frames, indices and registry unchanged, and each route's store transition and rendered frames are those of the "
               "corresponding store operation (both renderings carry the same frame list). The pinned handlers are refuted "
               "by computed witnesses (non-ASCII xs-meta, unknown CAS hash). Tie: raw HTTP/1.1 request sequences over the unix "
               "socket against the real api::serve, response and store dump compared with the extracted model after every request.",
    level_note=TRUSTED + "hyper's own request parsing and the byte rendering of requests are outside the model (requests hyper "
               "rejects before `handle` are never generated); follow streams are C03/C11's subject.",
    assumptions=["serde_json / base64 / url decoding are oracles: the generator names the malformation class, the implementation must classify it the same way"],
)


# ---------------------------------------------------------------------------------------------
# Engine V (handlers)
from . import svcengine as V


def handler_run(pid, extra=None):
    def run(ctx):
        n = 10 if ctx.tier == "quick" else 200
        seeds = [ctx.rnd.randrange(1, 10 ** 9) for _ in range(n)]
        from concurrent.futures import ThreadPoolExecutor
        with ThreadPoolExecutor(max_workers=6) as ex:
            reps = list(ex.map(robust(lambda sd: V.run_handler_scenario(sd, 14 if ctx.tier == "quick" else 24), 'handler scenario'), seeds))
        tot = dict(instances=0, triggers=0, outputs=0, invocations=0, bursts_while_busy=0, ephemeral_outputs_seen_by_follower=0)
        for sd, r in zip(seeds, reps):
            for k in tot:
                tot[k] += r.get(k, 0) or 0
            for v in r["violations"]:
                ctx.violation(v["what"][:700], dict(engine="V", seed=sd, script=v.get("script"), handler_id=v.get("handler_id")))
        info = None
        if extra:
            info = extra(ctx)
        if pid == "C16":
            dr = robust(lambda _sd: V.double_register_probe(), "double register probe")(0)
            ctx.coverage["double_register_probe"] = dr
            if dr["bad"]:
                b0 = dr["bad"][0]
                ctx.violation(f"`h` was registered twice in quick succession (tail mode; second registration {b0['second']} replaces {b0['first']}): one "
                              f"trigger was answered by {b0['answers']} and the instances announced as unregistered are {b0['unregistered']} - exactly one "
                              f"active instance per (context, name), the replaced one announced ({len(dr['bad'])} of {dr['trials']} trials)",
                              dict(engine="V", probe="double_register_probe", result=dr))
        if pid in ("C14", "C16"):   # C16: "once .registered is visible ... every later frame of its context is processed"
            lp = robust(lambda _sd: V.handler_lag_probe(), "handler lag probe")(0)
            ctx.coverage["lag_probe"] = lp
            if lp.get("error"):
                ctx.violation("handler lag probe: " + lp["error"], dict(engine="V", probe="handler_lag_probe", theorem_or_correspondence="engine V lag probe"), no_input=True)
            elif lp.get("foreign_served"):
                ctx.violation(f"a handler registered in context B was invoked for {lp['foreign_served']} of {lp['foreign_appended']} `trig` frames appended to "
                              f"the zero context (after it fell behind during a burst of {lp['appended']} frames and had to subscribe again)",
                              dict(engine="V", probe="handler_lag_probe", result=lp))
            elif lp["unregistered"] == 0 and (lp["missing"] or lp["dups"] or not lp["in_order"]):
                ctx.violation(f"a handler that was busy for 3 s while {lp['appended']} frames were appended to its context was afterwards invoked for "
                              f"{lp['outs']} of the {lp['triggers']} trigger frames ({lp['missing']} never, {lp['dups']} twice, in order: {lp['in_order']}; the "
                              f"trigger appended after the burst was {'served' if lp['last_served'] else 'NOT served'}) and never announced that it stopped",
                              dict(engine="V", probe="handler_lag_probe", result=lp))
        ctx.coverage.update(dict(
            evaluations=len(seeds), distinct_nontrivial=sum(1 for r in reps if r["invocations"] >= 3),
            rule="one evaluation = one scenario on the real server (api + handler dispatcher, in-process, driven over HTTP): "
                 "1-5 handler instances from a script DSL (guard topic, 0-3 buffered appends with --meta/--ttl/--context, return "
                 "value of several kinds, failure before/between/after appends, resume head/tail/after-id, custom suffix/ttl, "
                 "invalid scripts) in 1-3 contexts, triggers, bursts, re-registrations, .unregister, forged frames carrying the "
                 "handler id; afterwards the OBSERVED stream of each handler's context is replayed through the extracted "
                 "dispatch model and the frames it predicts must equal the frames the real handler appended (topic, context, "
                 "handler_id, frame_id, ttl, content bytes from CAS, user meta, error flag, order); non-trivial = >= 3 closure invocations",
            traces_validated_against_impl=len(seeds), handler_instances=tot["instances"], triggers=tot["triggers"],
            handler_outputs_compared=tot["outputs"], closure_invocations_replayed=tot["invocations"], extra=info,
            bursts_of_300_frames_while_a_handler_is_busy=tot["bursts_while_busy"],
            ephemeral_handler_outputs_observed_by_a_live_follower=tot["ephemeral_outputs_seen_by_follower"],
            samples=[dict(seed=seeds[0], scripts=reps[0]["script_samples"])]))
    return run


def announce_probe(ctx):
    r = V.announce_race(400)
    if r.get("error"):
        ctx.violation("announce/subscribe probe: " + r["error"], dict(engine="V", probe="announce_race"), no_input=True)
    elif not r["first_served"] and r["control_served"]:
        ctx.violation("a frame appended as soon as <name>.registered was visible was never processed by the (tail) handler: "
                      "the handler was announced before it had subscribed (serve task held 400 ms at handler.serve.enter)",
                      dict(engine="V", probe="announce_race", hook_sleep="handler.serve.enter:400", result=r))
    return r


def handler_replay(ctx, obj):
    r = V.run_handler_scenario(obj["seed"])
    print(json.dumps(r["violations"], indent=1)[:3000])
    for v in r["violations"]:
        ctx.violation("replay: " + v["what"][:600], dict(engine="V", seed=obj["seed"]))
    ctx.coverage.update(dict(evaluations=1, distinct_nontrivial=1, samples=[r["script_samples"]]))


HANDLER_NOTE = (TRUSTED + "Nushell evaluation is an oracle: the theorems hold for every closure; the correspondence samples "
                "closures from a script DSL. The delivered stream is taken from the store dump (frames of the handler's "
                "context after its resume point, in id order): that the real subscription delivers exactly that is C02/C03.")

REGISTRY["C14"] = dict(
    prop_file="Props/C14.v", engine="V", run=handler_run("C14"), replay=handler_replay,
    level_text="Coq (for every closure, configuration and delivered stream): the closure is invoked on a subsequence of the "
               "stream (once each, in order), on EVERY delivered frame while active except its own output and early "
               "registration traffic, never on its own output - so nothing it emits can be fed back to it - and each "
               "invocation starts from the environment the previous one returned. Tie: scenarios on the real server; the "
               "observed stream is replayed through the extracted model and must reproduce the handler's appended frames.",
    level_note=HANDLER_NOTE, assumptions=["the stream delivered to a handler is the context-scoped follow of C02/C03"])
REGISTRY["C15"] = dict(
    prop_file="Props/C15.v", engine="V", run=handler_run("C15"), replay=handler_replay,
    level_text="Coq (for every closure): every emitted frame carries the handler id and the handler's context whatever the "
               "script asked; one invocation emits its buffered appends in call order, then the return value on "
               "<name><suffix> with the configured TTL, all stamped with the triggering frame id; a failing closure emits "
               "nothing but <name>.unregistered with the error and stops. Tie: as C14 (contents are read back from CAS).",
    level_note=HANDLER_NOTE, assumptions=["meta passed to a buffered .append is a record (Nushell enforces the declared shape)"])
REGISTRY["C16"] = dict(
    prop_file="Props/C16.v", engine="V", run=handler_run("C16", extra=announce_probe), replay=handler_replay,
    level_text="Coq (for every closure): a newer .register/.unregister of its name stops an instance without invoking it, "
               "with exactly one dispatcher-made <name>.unregistered (handler id, triggering frame id, error flag iff closure "
               "error) as its last output; nothing is processed after a stop. The announce-after-subscribe ordering holds "
               "by construction after fix e263c2d and is re-tested on the real code on every run with the sync point "
               "handler.serve.enter stretched (a frame appended on sight of .registered must be processed). Tie: as C14 "
               "with re-registrations, unregisters, invalid scripts, several names and contexts.",
    level_note=HANDLER_NOTE, assumptions=["at most one instance per (context, name) follows from: a new .register is delivered to the old instance (same context), which stops"])


# ---------------------------------------------------------------------------------------------
# codec (C12)
from . import codecengine as CE


def c12_run(ctx):
    nv, ns = (300, 1500) if ctx.tier == "quick" else (4000, 50000)
    r = CE.run(ctx.rnd.randrange(1, 10 ** 9), nv, ns)
    for v in r["violations"][:6]:
        if v.get("no_input"):
            ctx.violation(v["what"], dict(engine="S-codec", theorem_or_correspondence="xsv codec"), no_input=True)
        else:
            ctx.violation(v["what"][:600], dict(engine="S-codec", input=v.get("input")))
    nj, nf = (500, 500) if ctx.tier == "quick" else (20000, 20000)
    rj = CE.run_json(ctx.rnd.randrange(1, 10 ** 9), nj, nf)
    for v in rj["violations"][:6]:
        if v.get("no_input"):
            ctx.violation(v["what"], dict(engine="S-codec", theorem_or_correspondence="xsv codec J/F/P lines vs xsmodel json"), no_input=True)
        else:
            ctx.violation(v["what"][:600], dict(engine="S-codec", json_input=v.get("input")))
    wb = robust(V.wire_boundary_probe, "wire boundary probe")(ctx.rnd.randrange(1, 10 ** 9))
    for v in wb["violations"]:
        ctx.violation(v["what"][:600], dict(engine="H", probe="wire_boundary_probe"))
    # what the boundary accepted carries exactly the TTL the grammar (extracted parse_ttl) assigns to the string
    acc_model, _, _ = CE._run(build.XSMODEL, "codec", ["ttl " + S.xh(t) for t, _ in wb["accepted"]])
    for (t, got), m in zip(wb["accepted"], acc_model):
        want = m[3:] if m.startswith("ok ") else None
        canon = lambda x: None if x is None else (x.split(":")[0] + ":%x" % int(x.split(":")[1]) if ":" in x else x)
        if want is None or canon(got) != want:
            ctx.violation(f"POST /wire?ttl={t!r} was accepted and stored with ttl {got!r}; the grammar says {m!r}",
                          dict(engine="H", probe="wire_boundary_probe", input=t))
    nd = robust(lambda _sd: V.nu_deep_meta_probe(), "nu deep meta probe")(0)
    for v in nd["violations"]:
        ctx.violation(v["what"][:600], dict(engine="V", probe="nu_deep_meta_probe"))
    dt = robust(V.definition_ttl_probe, "definition ttl probe")(ctx.rnd.randrange(1, 10 ** 9))
    for v in dt["violations"]:
        ctx.violation(v["what"][:600], dict(engine="V", probe="definition_ttl_probe"))
    st = r["stats"]
    st.update(rj["stats"])
    st["nu_deep_meta_probes"] = nd["probes"]
    st["definition_ttl_probes"] = dt["probes"]
    st["http_boundary_probes"] = wb["probes"]
    ctx.coverage.update(dict(
        evaluations=sum(st[k] for k in ("ttl_values", "ttl_strings", "ttl_queries", "ro_values", "ro_queries", "json_texts", "frame_texts", "store_probes")),
        distinct_nontrivial=st["accepted"],
        rule="one evaluation = one value or string pushed through the real parse_ttl / TTL serde / TTL::from_query / "
             "ReadOptions::to_query_string / ReadOptions::from_query and through the extracted grammar: structured values at the "
             "boundaries (0, 1, 2^32-1, 2^32, 2^63, 2^64-1) and random ones are printed by both sides and parsed back; strings "
             "within a few edits of the grammar (signs, spaces, leading zeros, non-ASCII digits, overflow) and option strings over "
             "the option alphabet (duplicates, unknown keys, bad ids) must be accepted/rejected identically with identical values; "
             "distinct_nontrivial = inputs the implementation accepted",
        traces_validated_against_impl=1, input_distribution=st, samples=r.get("samples", [])))


REGISTRY["C12"] = dict(
    prop_file="Props/C12.v", engine="S", run=c12_run,
    replay=lambda ctx, obj: c12_run(ctx),
    level_text="Coq, by induction (no enumeration): every well-formed TTL survives its string form and its query "
               "form; whatever parse_ttl accepts is well formed (never head:0 / out of range); decimal print/parse round trip "
               "with the u64/u32/usize bounds; ReadOptions (all follow modes with ms heartbeats, tail, last-id, limit, context) "
               "survive client encoding -> server parser; duplicates rejected, unknown keys ignored. Frames: a model of JSON as "
               "serde_json writes and reads it (printer with its escapes, recursive-descent parser with the recursion limit, "
               "numbers, \\u escapes and surrogate pairs, Value normalisation = insertion order, last duplicate wins - this build's "
               "serde_json has preserve_order) and of the Frame (de)serializer: "
               "parse (print v) = v for EVERY value nested less than 128 levels and = error for every deeper one; every frame "
               "whose meta nests <= 126 levels decodes to the identical frame, every deeper one does not decode (frame_poison); "
               "the fixed insert_frame (refuses what does not decode) therefore only stores frames that read back identically "
               "(C12_accepted_reads_back), the pinned one is refuted by a computed witness. Tie: the real parsers / printers / "
               "serde_json / Frame deserializer / Store::append+get / a Nushell script on thousands of structured values, "
               "near-grammar strings, JSON texts (whitespace, escapes, duplicates, nesting 1..600, malformed) and frame texts "
               "(field order, missing / duplicate / unknown fields, array form, bad ids and TTLs) vs the extracted model.",
    level_note=TRUSTED + "Percent-encoding, f64 printing/parsing (a non-integer number is its lexeme in the model; texts with "
               "overflowing floats or > 38-digit integers are skipped in the tie and counted), UTF-8 validation, the scru128 text "
               "form and ssri::Integrity are oracles. A meta of Some(null) is indistinguishable from no meta in every encoding and "
               "reads back as None (outside wf_frame; not observable through any interface). The Frame deserializer skips unknown "
               "fields without a depth limit (model: with), so unknown fields are shallow in the tie.",
    assumptions=["heartbeat durations are whole milliseconds < 2^64 (Duration::from_millis is the only constructor any entry point uses)"])


def c17_run(ctx):
    n = 6 if ctx.tier == "quick" else 120
    seeds = [ctx.rnd.randrange(1, 10 ** 9) for _ in range(n)]
    from concurrent.futures import ThreadPoolExecutor
    with ThreadPoolExecutor(max_workers=4) as ex:
        reps = list(ex.map(robust(lambda sd: V.run_restart_scenario(sd, 12 if ctx.tier == "quick" else 20, kill=(sd % 3 != 0)), 'restart scenario'), seeds))
    n_hist = 0
    for sd, r in zip(seeds, reps):
        n_hist += r.get("n_hist", 0)
        for v in r["violations"][:3]:
            ctx.violation(v["what"][:700], dict(engine="V", seed=sd, scenario="restart", events=r["events"], detail={k: str(x)[:300] for k, x in v.items() if k != "what"}))
    ctx.coverage.update(dict(
        evaluations=len(seeds), distinct_nontrivial=sum(1 for r in reps if r.get("n_hist", 0) >= 5),
        rule="one evaluation = one scenario on the real server (api + handlers + generators + commands): a history of "
             "register / unregister / replace / invalid registration, duplex generator spawns (incl. refused ones), command "
             "define / redefine / invalid define / call over several names and 2-3 contexts (same name in different contexts), "
             "then the server process is killed (2 of 3) or stopped and started again on the same store; probes (triggers, "
             ".send, .call in every context) show which instances answer, by id: handlers and generators must be exactly those "
             "the extracted specification (keyed by (context, name)) computes from the stored history, commands must answer as "
             "before the restart, and no historical trigger or call may be re-executed; non-trivial = >= 5 dispatcher-relevant frames",
        traces_validated_against_impl=len(seeds), dispatcher_frames_in_histories=n_hist,
        samples=[dict(seed=seeds[0], events=reps[0]["events"])]))


def c17_replay(ctx, obj):
    r = V.run_restart_scenario(obj["seed"])
    print(json.dumps(r["violations"], indent=1)[:3000])
    for v in r["violations"]:
        ctx.violation("replay: " + v["what"][:600], dict(engine="V", seed=obj["seed"], scenario="restart"))
    ctx.coverage.update(dict(evaluations=1, distinct_nontrivial=1, samples=[r["events"]]))


REGISTRY["C17"] = dict(
    prop_file="Props/C17.v", engine="V", run=c17_run, replay=c17_replay,
    level_text="Coq: with tables keyed by (context, name) the start-up replay of handlers / generators / commands returns "
               "exactly the instances that the history leaves active (latest registration not ended or replaced; latest spawn "
               "not refused; latest definition), with their ids, in id order; ended ones never come back; the pinned name-keyed "
               "tables are refuted by computed witnesses and proved correct only when a name lives in one context. Tie: restart "
               "scenarios on the real server (process kill / stop, same store), active instances identified by id through probes "
               "and compared with the extracted specification.",
    level_note=HANDLER_NOTE + " Commands are keyed by name only both while running and at start-up (consistent across a restart; "
               "the check requires the same answers before and after). A user `.unregister` not yet answered by `.unregistered` "
               "when the process dies is outside the model (the handler returns after restart).",
    assumptions=["ids in the stored history are increasing (C01/C02)"])


def svc_run(kind):
    def run(ctx):
        n = (8 if kind == "cmd" else 6) if ctx.tier == "quick" else 150
        seeds = [ctx.rnd.randrange(1, 10 ** 9) for _ in range(n)]
        from concurrent.futures import ThreadPoolExecutor
        fn = V.run_command_scenario if kind == "cmd" else V.run_generator_scenario
        with ThreadPoolExecutor(max_workers=6) as ex:
            reps = list(ex.map(robust(fn, kind + ' scenario'), seeds))
        for sd, r in zip(seeds, reps):
            for v in r["violations"][:3]:
                ctx.violation(v["what"][:700], dict(engine="V", seed=sd, scenario=kind, script=v.get("script")))
        if kind == "cmd":
            cov = dict(calls=sum(r["calls"] for r in reps), frames_compared=sum(r["frames"] for r in reps),
                       samples=[dict(seed=seeds[0], scripts=reps[0]["scripts"], events=reps[0]["events"])])
            rule = ("one evaluation = one scenario on the real server (api + command dispatcher): command scripts from a DSL (0-3 "
                    "output values, single value, explicit .append inside with/without --meta, runtime error, custom suffix/ttl, slow "
                    "scripts, a per-call counter kept in $env), define / redefine / invalid define / call / bursts of overlapping calls "
                    "over names and contexts, a call before any definition; the frames of every call (grouped by meta.frame_id) must "
                    "equal what the extracted model computes from the definition in force (latest valid define before the call): "
                    "topics, caller's context, command_id, ttl, contents from CAS, order, terminal event; the counter must read 1 in "
                    "every call (no state leaks)")
            nontrivial = sum(1 for r in reps if r["calls"] >= 3)
        else:
            cov = dict(spawns=sum(r["spawns"] for r in reps), frames_compared=sum(r["frames"] for r in reps),
                       complete_lifecycles=sum(r["lifecycles"] for r in reps),
                       duplex_instances_compared_with_model=sum(r.get("duplex_instances", 0) for r in reps),
                       samples=[dict(seed=seeds[0], expressions=reps[0]["exprs"])])
            rule = ("one evaluation = one scenario on the real server (api + generator dispatcher): 2-4 generators over two contexts "
                    "from expressions producing 0..4 strings (single value, list stream, range stream, empty and non-ASCII strings), "
                    "duplex generators fed by .send frames interleaved with other traffic, spawns without content and spawns of a "
                    "running name (refused), duplex generators whose pipeline ends after one input (several instances), the same "
                    "name in two contexts, sends shorter than Nushell's 4-byte chunk threshold; once every plain generator has "
                    "completed three lifecycles (or after 12 s) the frames of every spawn (by meta.source_id) must be "
                    "a prefix of the model's start, recv..., stop, start, ... with the produced strings as contents, in the spawn's "
                    "context, with at least three complete lifecycles; every instance of a duplex generator must have produced "
                    "exactly what Service.instance_input (extracted) feeds it from the observed stream; refused spawns yield "
                    "exactly one .spawn.error")
            nontrivial = sum(1 for r in reps if r["frames"] >= 4)
        ctx.coverage.update(dict(evaluations=len(seeds), distinct_nontrivial=nontrivial, rule=rule,
                                 traces_validated_against_impl=len(seeds), **cov))
    return run


def svc_replay(kind):
    def replay(ctx, obj):
        r = (V.run_command_scenario if kind == "cmd" else V.run_generator_scenario)(obj["seed"])
        print(json.dumps(r["violations"], indent=1)[:3000])
        for v in r["violations"]:
            ctx.violation("replay: " + v["what"][:600], dict(engine="V", seed=obj["seed"], scenario=kind))
        ctx.coverage.update(dict(evaluations=1, distinct_nontrivial=1, samples=[obj["seed"]]))
    return replay


REGISTRY["C18"] = dict(
    prop_file="Props/C18.v", engine="V", run=svc_run("gen"), replay=svc_replay("gen"),
    level_text="Coq (for every list of produced strings): a lifecycle is start, one recv per string in production order with "
               "that string as content, stop; all frames carry the spawn id as source and the spawn's context; consecutive "
               "lifecycles concatenate (restart after stop); duplex input is the contents of the .send frames of the generator's "
               "context after the instance's own start and before its stop, once each, in order, and instances that do not "
               "overlap share no input. Mostly by construction of a sequential worker, so the weight is on the tie: generator "
               "scenarios on the real server compared frame by frame with the extracted model (it found the empty-string "
               "defect fixed in /repo).",
    level_note=HANDLER_NOTE + " The 1 s respawn delay is real time. Duplex input is not filtered by context in the code (noted, "
               "DESIGN §0.3); scenarios send in the generator's own context.",
    assumptions=["Nushell pipeline evaluation is an oracle; expressions are sampled from a small set"])
REGISTRY["C19"] = dict(
    prop_file="Props/C19.v", engine="V", run=svc_run("cmd"), replay=svc_replay("cmd"),
    level_text="Coq (for every script result): the frames of a call are its explicit appends, one result per output value in "
               "order on <name><suffix> with the configured TTL, then exactly one terminal .complete - or its appends and "
               "exactly one .error - all stamped with the definition id and the call id in the caller's context (stamps are a "
               "function of the call alone); the latest valid definition wins, an invalid one is reported and changes nothing; "
               "one action per event while serving and start-up ignores historical calls (no replay). Tie: command scenarios on "
               "the real server incl. overlapping calls and per-call isolation.",
    level_note=HANDLER_NOTE + " The command table is keyed by name only (a definition in one context serves calls from another): "
               "modelled as such.",
    assumptions=["Nushell evaluation is an oracle; per-call isolation (fresh engine clone) is exercised by a counter kept in $env"])


def c10_run(ctx):
    n = 3 if ctx.tier == "quick" else 40
    seeds = [ctx.rnd.randrange(1, 10 ** 9) for _ in range(n)]
    from concurrent.futures import ThreadPoolExecutor
    with ThreadPoolExecutor(max_workers=3) as ex:
        reps = list(ex.map(robust(V.run_cas_scenario, 'cas scenario'), seeds))
    for sd, r in zip(seeds, reps):
        for v in r["violations"][:4]:
            ctx.violation(v["what"][:600], dict(engine="H/V", seed=sd, scenario="cas"))
    # crash form: kill images of content-carrying workloads (engine K)
    K.build_shim()
    crash_tot, crash_states = 0, {}
    for w in range(1 if ctx.tier == "quick" else 10):
        rr = random.Random(ctx.rnd.getrandbits(64))
        script = [f"append - {S.xh(S.XS_CONTEXT)} - - -"]
        for i in range(rr.randrange(5, 9)):
            content = rr.choice([b"hello", b"z" * 9000, bytes(rr.randrange(256) for _ in range(40)), b"", b"a"])
            script.append(f"append {rr.choice(['-', '@0'])} {S.xh(rr.choice(['a', 'b']))} {S.xh(content)} - -")
        res = K.run_workload(script, variants=("kill", "torn2"))
        for x in res["results"]:
            crash_tot += 1
            crash_states[x.get("state") or x["kind"]] = crash_states.get(x.get("state") or x["kind"], 0) + 1
            if x["kind"] == "violation":
                ctx.violation("process kill: " + x["what"][:600], dict(engine="K", script=script, crash_at=x["n"], torn=x.get("torn")))
    ctx.coverage.update(dict(
        evaluations=sum(r["writes"] + r["reads"] for r in reps) + crash_tot, distinct_nontrivial=sum(r["writes"] for r in reps),
        rule="one evaluation = one content write or read-back on the real server, or one crash image: byte strings (empty, 1 byte, "
             "NUL, non-UTF-8, 8191/8192/8193 bytes, 100 KiB random) through POST /cas and POST /{topic}, plus a handler's buffered "
             ".append and return value, a command output and a generator output; every reported hash is compared with an "
             "independent sha256 (python hashlib), every content is read back byte for byte, a follower connection fetches the "
             "content of every hashed frame the moment it is delivered, everything is re-read after a process kill + restart; and "
             "kill images (every tracked syscall) of content-carrying workloads must hold the content of every visible hashed frame",
        content_writes=sum(r["writes"] for r in reps), content_reads=sum(r["reads"] for r in reps),
        frames_fetched_by_racing_follower=sum(r["raced"] for r in reps), crash_images=crash_tot, crash_outcomes=crash_states,
        traces_validated_against_impl=len(seeds), samples=[dict(seed=seeds[0], body_sizes=reps[0]["sizes"])]))


REGISTRY["C10"] = dict(
    prop_file="Props/C10.v", engine="H", run=c10_run, replay=lambda ctx, obj: c10_run(ctx),
    level_text="Coq (front-end model): content written under a hash is returned byte for byte by it; an append without a body "
               "yields a frame without a hash, with a body the frame carries that body's hash; in the state where the appended "
               "frame is visible its content is already in the CAS (committed before the store append). Byte-exactness, the hash "
               "function and its determinism across entry points and restarts are oracle properties: CHECKED on every run against "
               "an independent sha256, by reading every content back, by a follower racing every append, across a kill + "
               "restart, and on kill images at every tracked syscall (engine K).",
    level_note=TRUSTED + "partial: sha256/cacache byte-exactness are differential only; content durability against power loss is "
               "not claimed (as in the property).",
    assumptions=["cacache publishes content by an atomic rename before write_hash/commit returns"])
