"""Regenerate MANIFEST.json from the registry (python3 -m verif.mkmanifest)."""
import json, os
from .props import REGISTRY
from .build import ROOT

NOT_YET = {}

def main():
    props = [json.loads(l) for l in open(os.path.join(ROOT, "properties.jsonl"))]
    checks, na = [], []
    for p in props:
        pid = p["id"]
        if pid in REGISTRY:
            r = REGISTRY[pid]
            checks.append(dict(
                property_id=pid,
                quick_cmd=f"./check {pid} --tier quick",
                thorough_cmd=f"./check {pid} --tier thorough",
                evidence_file=f"/verif/evidence/{pid}.json",
                replay_cmd_template=f"./check {pid} --replay {{path}}",
                engine=r.get("engine", "S"),
                level_claimed=dict(category=r.get("level", "proof"), text=r["level_text"], design_ref=r.get("design_ref", f"DESIGN.md §7 {pid}")),
                level_note=r["level_note"],
                technique=r.get("technique", "machine-checked proof in Coq 8.16 over an executable model + differential correspondence check against the implementation"),
            ))
        else:
            na.append(dict(property_id=pid, reason=NOT_YET.get(pid, "not yet covered by the Coq development in this revision (work in progress; see DESIGN.md §10)")))
    m = dict(
        version=1,
        setup_cmd="./setup.sh",
        hooks=dict(guard="cargo feature verif-hooks",
                   enable="harness/Cargo.toml (generated) depends on /repo with features=[\"verif-hooks\"]",
                   baseline_off_cmd="cd /repo && cargo test --workspace --no-fail-fast --offline",
                   source_commits=json.load(open(os.path.join(ROOT, "hooks_commits.json"))),
                   add_only=True),
        engines=[dict(name="S", path="harness/src/seq.rs", serves_properties=[c["property_id"] for c in checks if c["engine"] == "S"],
                      kind_free_text="sequential store histories on the real Store (child process, real restarts, hooked clock and GC stepping) vs extracted Coq model and spec")],
        checks=checks,
        notes="All checks: Coq theorems (coq/Props/Cxx.v) + correspondence of the hand-written model with /repo's working tree on every run. See DESIGN.md.",
        not_applicable=na,
    )
    json.dump(m, open(os.path.join(ROOT, "MANIFEST.json"), "w"), indent=1)

if __name__ == "__main__":
    main()
