"""Seeded-change bookkeeping: confirm a sub-agent's mutant in a scratch worktree, store it under
/verif/seeded/<name>/, and run our checks against it (apply to /repo, check, undo).

  python3 -m verif.seed_eval confirm <src_dir> <worktree> <name>
  python3 -m verif.seed_eval run <name> <Cxx> [<Cyy> ...]
"""
import json, os, shutil, subprocess, sys, time

ROOT = os.path.dirname(os.path.dirname(os.path.abspath(__file__)))
SEEDED = os.path.join(ROOT, "seeded")


def sh(cmd, cwd=None, timeout=3600):
    p = subprocess.run(cmd, cwd=cwd, stdout=subprocess.PIPE, stderr=subprocess.STDOUT, text=True, timeout=timeout,
                       stdin=subprocess.DEVNULL, env=dict(os.environ, CARGO_NET_OFFLINE="true"))
    return p.returncode, p.stdout


def confirm(src, wt, name):
    """compiles + existing suite passes + demo fails with the change + demo passes without"""
    patch = os.path.join(src, "patch.diff")
    demo = os.path.join(src, "demo.rs")
    rec = dict(name=name, confirmed_at=time.strftime("%Y-%m-%dT%H:%M:%SZ", time.gmtime()))
    sh(["git", "checkout", "--", "."], cwd=wt)
    for f in os.listdir(os.path.join(wt, "tests")):
        if f.startswith("demo_"):
            os.remove(os.path.join(wt, "tests", f))
    rc, out = sh(["git", "apply", patch], cwd=wt)
    rec["applies"] = rc == 0
    if rc:
        rec["apply_log"] = out[-500:]
        return rec
    shutil.copy(demo, os.path.join(wt, "tests", "demo_seed.rs"))
    rc, out = sh(["timeout", "900", "cargo", "test", "--workspace", "--no-fail-fast", "--offline"], cwd=wt)
    rec["suite_timed_out"] = rc == 124
    lines = [l for l in out.splitlines() if l.startswith("test ") and l.rstrip().endswith(("ok", "FAILED"))]
    failed = [l for l in lines if l.rstrip().endswith("FAILED")]
    suite_failed = [l for l in failed if "demo" not in l and not any(d in l for d in demo_tests(demo))]
    rec["compiles"] = "error: could not compile" not in out
    rec["existing_suite_failed"] = [l for l in suite_failed if "test_follow" not in l]
    rec["demo_fails_with_change"] = any(any(d in l for d in demo_tests(demo)) for l in failed)
    rec["with_change_tail"] = [l for l in failed][:6]
    sh(["git", "checkout", "--", "."], cwd=wt)
    rc, out = sh(["timeout", "600", "cargo", "test", "--offline", "--test", "demo_seed"], cwd=wt)
    rec["demo_passes_without_change"] = rc == 0
    rec["without_change_tail"] = out.splitlines()[-4:]
    os.remove(os.path.join(wt, "tests", "demo_seed.rs"))
    d = os.path.join(SEEDED, name)
    os.makedirs(d, exist_ok=True)
    shutil.copy(patch, os.path.join(d, "patch.diff"))
    shutil.copy(demo, os.path.join(d, "demo.rs"))
    meta = json.load(open(os.path.join(src, "meta.json"))) if os.path.exists(os.path.join(src, "meta.json")) else {}
    meta["confirmation"] = rec
    meta["what_we_ran"] = ("in a scratch worktree of /repo: git apply patch.diff; demo.rs copied to tests/demo_seed.rs; "
                           "cargo test --workspace --no-fail-fast --offline (existing suite must pass, demo must fail); "
                           "git checkout -- .; cargo test --offline --test demo_seed (must pass)")
    json.dump(meta, open(os.path.join(d, "meta.json"), "w"), indent=1)
    return rec


def demo_tests(demo):
    import re
    src = open(demo).read()
    return re.findall(r"fn\s+(\w+)\s*\(", src)


def run(name, props, tier="quick"):
    d = os.path.join(SEEDED, name)
    patch = os.path.join(d, "patch.diff")
    rc, out = sh(["git", "-C", "/repo", "status", "--porcelain", "--untracked-files=no"])
    if out.strip():
        print("refusing: /repo has uncommitted changes"); return None
    rc, out = sh(["git", "-C", "/repo", "apply", patch])
    if rc:
        print("patch does not apply to /repo:", out[-300:]); return None
    results = {}
    try:
        for p in props:
            t0 = time.time()
            rc, out = sh([os.path.join(ROOT, "check"), p, "--tier", tier], cwd=ROOT, timeout=3000)
            vio = [l for l in out.splitlines() if l.startswith("VIOLATION")]
            detail = [l.strip() for l in out.splitlines() if l.startswith("  ")][:2]
            results[p] = dict(exit=rc, violation_lines=vio[:3], detail=detail, wall_s=round(time.time() - t0, 1),
                              concrete=any("no-failing-input-found" not in v for v in vio))
            print(p, "exit", rc, (vio[0][:200] if vio else ""), (detail[0][:300] if detail else ""))
    finally:
        sh(["git", "-C", "/repo", "checkout", "--", "."])
    mp = os.path.join(d, "meta.json")
    meta = json.load(open(mp))
    meta.setdefault("checks", {}).update(results)
    json.dump(meta, open(mp, "w"), indent=1)
    return results


if __name__ == "__main__":
    if sys.argv[1] == "confirm":
        print(json.dumps(confirm(sys.argv[2], sys.argv[3], sys.argv[4]), indent=1))
    elif sys.argv[1] == "run":
        run(sys.argv[2], sys.argv[3:])
