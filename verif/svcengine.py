"""Engine V: the real server with its handler / generator / command dispatchers (in-process in
`xsv serve`), driven over HTTP like any client; the observed stream is replayed through the
extracted dispatch model, whose outputs must coincide with what the real dispatcher appended."""
import base64, json, os, random, subprocess, time

from . import build
from . import httpengine as H
from .seqengine import xh, unxh


class Client(H.Server):
    def __init__(self, services="api,handlers,generators,commands", path=None):
        if path is None:
            super().__init__(services)
        else:   # restart on an existing store
            self.wd, self.path = os.path.dirname(path), path
            self.p = subprocess.Popen([build.XSV, "serve", self.path, services], stdin=subprocess.PIPE,
                                      stdout=subprocess.PIPE, stderr=subprocess.PIPE, text=True, bufsize=1)
            if "READY" not in self.p.stdout.readline():
                raise RuntimeError("server did not restart")
            self.sock = os.path.join(self.path, "sock")

    def kill(self):
        """process kill; the store directory stays"""
        self.p.kill()
        self.p.wait()

    def append(self, topic, ctx=0, body=b"", meta=None, ttl=None):
        q = []
        if ctx:
            q.append("context=" + H.id_to_s(ctx))
        if ttl:
            q.append("ttl=" + ttl)
        headers = {}
        if meta is not None:
            headers["xs-meta"] = base64.b64encode(json.dumps(meta).encode()).decode()
        st, hd, b = self.request(H.render("POST", "/" + topic + ("?" + "&".join(q) if q else ""), headers, body))
        if st != 200:
            return None
        j = json.loads(b)
        return H.s_to_id(j["id"])

    def frames(self):
        """all stored frames as dicts (id, ctx, topic, hash, meta dict, ttl)"""
        out = []
        for f in self.dump() or []:
            i, c, t, h, m, ttl = f.split(",")
            out.append(dict(id=int(i, 16), ctx=int(c, 16), topic=unxh(t).decode(), hash=unxh(h).decode() if h != "-" else None,
                            meta=json.loads(unxh(m)) if m != "-" else None, ttl=ttl))
        return out

    def cas(self, h):
        st, hd, b = self.request(H.render("GET", "/cas/" + h))
        return b if st == 200 else None

    def settle(self, quiet=0.35, timeout=15.0):
        """wait until the stream stops growing"""
        t0, last, last_t = time.time(), None, time.time()
        while time.time() - t0 < timeout:
            d = self.dump()
            n = len(d) if d is not None else -1
            if n != last:
                last, last_t = n, time.time()
            elif time.time() - last_t > quiet:
                return True
            time.sleep(0.03)
        return False

    def wait_topic(self, topic, ctx=0, after=0, timeout=10.0):
        t0 = time.time()
        while time.time() - t0 < timeout:
            for f in self.frames():
                if f["topic"] == topic and f["ctx"] == ctx and f["id"] > after:
                    return f
            time.sleep(0.02)
        return None


# ---- handler script DSL ----------------------------------------------------------------------
def nu_str(s):
    return json.dumps(s)


def render_handler(p):
    """p: dict(guard, appends=[dict(topic, meta, ttl, ctx, content)], ret, fail, resume, suffix, ttl)"""
    lines = ["{"]
    if p.get("resume"):
        lines.append(f"  resume_from: {nu_str(p['resume'])}")
    if p.get("suffix") or p.get("ttl"):
        ro = []
        if p.get("suffix"):
            ro.append(f"suffix: {nu_str(p['suffix'])}")
        if p.get("ttl"):
            ro.append(f"ttl: {nu_str(p['ttl'])}")
        lines.append("  return_options: {" + ", ".join(ro) + "}")
    body = []
    if p.get("guard") is not None:
        body.append(f"    if $frame.topic != {nu_str(p['guard'])} {{ return }}")
    body.append("    $env.count = (($env.count? | default 0) + 1)")
    fail = p.get("fail", "none")
    if fail == "before":
        body.append('    error make {msg: "boom"}')
    for k, a in enumerate(p.get("appends", [])):
        if fail == f"between:{k}":
            body.append('    error make {msg: "boom"}')
        cmd = f"    {nu_str(a['content'])} | .append {nu_str(a['topic'])}"
        if a.get("meta") is not None:
            cmd += " --meta " + "{" + ", ".join(f"{k2}: {nu_str(v) if isinstance(v, str) else v}" for k2, v in a["meta"].items()) + "}"
        if a.get("ttl"):
            cmd += f" --ttl {nu_str(a['ttl'])}"
        if a.get("ctx") is not None:
            cmd += f" --context {nu_str(H.id_to_s(a['ctx']))}"
        body.append(cmd)
    if fail == "after" or (fail.startswith("between:") and int(fail.split(":")[1]) >= len(p.get("appends", []))):
        body.append('    error make {msg: "boom"}')
    ret = p.get("ret", "nothing")
    if ret == "nothing":
        body.append("    null")
    elif ret.startswith("str:"):
        body.append("    " + nu_str(ret[4:]))
    elif ret.startswith("int:"):
        body.append("    " + ret[4:])
    elif ret == "count":
        body.append("    $env.count")
    elif ret == "topic":
        body.append("    $frame.topic")
    lines.append("  run: {|frame|\n" + "\n".join(body) + "\n  }")
    lines.append("}")
    return "\n".join(lines)


def ttl_tok(t):
    if not t:
        return "-"
    if ":" in t:
        k, v = t.split(":")
        return f"{k}:{int(v):x}"
    return t


def model_handler(conf, p, delivered):
    """run the extracted dispatch model; -> (emitted list of dicts, seen ids)"""
    lines = [f"CONF id={H.hex32(conf['id'])} ctx={H.hex32(conf['ctx'])} name={xh(conf['name'])} "
             f"suffix={xh(p.get('suffix') or '.out')} ttl={ttl_tok(p.get('ttl'))}"]
    fail = p.get("fail", "none")
    ret = p.get("ret", "nothing")
    if ret.startswith("str:"):
        ret = "str:" + xh(ret[4:])
    elif ret.startswith("int:"):
        ret = "int:%x" % int(ret[4:])
    prog = f"PROG guard={xh(p['guard']) if p.get('guard') is not None else '-'} ret={ret} fail={fail}"
    for a in p.get("appends", []):
        meta = json.dumps(a["meta"], separators=(",", ":")) if a.get("meta") is not None else None
        prog += f" A {xh(a['topic'])} {xh(meta) if meta else '-'} {ttl_tok(a.get('ttl'))} " \
                f"{H.hex32(a['ctx']) if a.get('ctx') is not None else '-'} {xh(json.dumps(a['content']))}"
    lines.append(prog)
    for f in delivered:
        hid = None
        if f["meta"] and isinstance(f["meta"].get("handler_id"), str):
            try:
                hid = H.s_to_id(f["meta"]["handler_id"])
            except Exception:
                hid = None
        lines.append(f"F {H.hex32(f['id'])} {H.hex32(f['ctx'])} {xh(f['topic'])} {H.hex32(hid) if hid is not None else '-'}")
    m = subprocess.run([build.XSMODEL, "handler"], input=("\n".join(lines) + "\n").encode(), stdout=subprocess.PIPE,
                       stderr=subprocess.PIPE, timeout=60)
    if m.returncode:
        raise RuntimeError("xsmodel handler: " + m.stderr.decode()[-300:])
    emitted, seen = [], []
    for l in m.stdout.decode().splitlines():
        t = l.split(" ")
        if t[0] == "E":
            emitted.append(dict(topic=unxh(t[1]).decode(), ctx=int(t[2], 16), hid=int(t[3], 16), fid=int(t[4], 16), ttl=t[5],
                                content=unxh(t[6]) if t[6] != "-" else None,
                                meta=json.loads(unxh(t[7])) if t[7] != "-" else None, err=t[8] == "1"))
        elif t[0] == "SEEN":
            seen.append(int(t[1], 16))
    return emitted, seen


def observed_outputs(cl, frames, hid):
    """frames the real handler `hid` appended, in id order, in the model's vocabulary"""
    out = []
    hs = H.id_to_s(hid)
    for f in frames:
        m = f["meta"]
        if m and m.get("handler_id") == hs and not f["topic"].endswith(".registered"):
            user = {k: v for k, v in m.items() if k not in ("handler_id", "frame_id", "error")}
            fid = None
            try:
                fid = H.s_to_id(m.get("frame_id")) if m.get("frame_id") else None
            except Exception:
                fid = "unparsable"
            out.append(dict(topic=f["topic"], ctx=f["ctx"], hid=hid, fid=fid, ttl=f["ttl"],
                            content=cl.cas(f["hash"]) if f["hash"] else None,
                            meta=user or None, err="error" in m))
    return out
