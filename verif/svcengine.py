"""Engine V: the real server with its handler / generator / command dispatchers (in-process in
`xsv serve`), driven over HTTP like any client; the observed stream is replayed through the
extracted dispatch model, whose outputs must coincide with what the real dispatcher appended."""
import base64, json, os, random, subprocess, time

from . import build
from . import httpengine as H
from .seqengine import xh, unxh


class Client(H.Server):
    def __init__(self, services="api,handlers,generators,commands", path=None, env=None):
        if path is None:
            super().__init__(services, env=env)
        else:   # restart on an existing store
            self.wd, self.path = os.path.dirname(path), path
            self.errpath = os.path.join(self.wd, "stderr.log")
            self.p = subprocess.Popen([build.XSV, "serve", self.path, services], stdin=subprocess.PIPE,
                                      stdout=subprocess.PIPE, stderr=open(self.errpath, "ab"), text=True, bufsize=1,
                                      env=dict(os.environ, **(env or {})))
            if "READY" not in self.p.stdout.readline():
                raise RuntimeError("server did not restart")
            self.sock = os.path.join(self.path, "sock")

    def kill(self):
        """process kill; the store directory stays"""
        self.p.kill()
        self.p.wait()

    def append(self, topic, ctx=0, body=b"", meta=None, ttl=None):
        q = []
        if ctx:
            q.append("context=" + H.id_to_s(ctx))
        if ttl:
            q.append("ttl=" + ttl)
        headers = {}
        if meta is not None:
            headers["xs-meta"] = base64.b64encode(json.dumps(meta).encode()).decode()
        st, hd, b = self.request(H.render("POST", "/" + topic + ("?" + "&".join(q) if q else ""), headers, body))
        if st != 200:
            return None
        j = json.loads(b)
        return H.s_to_id(j["id"])

    def frames(self):
        """all stored frames as dicts (id, ctx, topic, hash, meta dict, ttl)"""
        out = []
        for f in self.dump() or []:
            i, c, t, h, m, ttl = f.split(",")
            out.append(dict(id=int(i, 16), ctx=int(c, 16), topic=unxh(t).decode(), hash=unxh(h).decode() if h != "-" else None,
                            meta=json.loads(unxh(m)) if m != "-" else None, ttl=ttl))
        return out

    def cas(self, h):
        st, hd, b = self.request(H.render("GET", "/cas/" + h))
        return b if st == 200 else None

    def settle(self, quiet=0.35, timeout=15.0):
        """wait until the stream stops growing"""
        t0, last, last_t = time.time(), None, time.time()
        while time.time() - t0 < timeout:
            d = self.dump()
            n = len(d) if d is not None else -1
            if n != last:
                last, last_t = n, time.time()
            elif time.time() - last_t > quiet:
                return True
            time.sleep(0.03)
        return False

    def wait_topic(self, topic, ctx=0, after=0, timeout=10.0):
        t0 = time.time()
        while time.time() - t0 < timeout:
            for f in self.frames():
                if f["topic"] == topic and f["ctx"] == ctx and f["id"] > after:
                    return f
            time.sleep(0.02)
        return None


class Follower:
    """a live subscriber of all contexts (GET /?follow=true): everything broadcast while it is connected, ephemeral frames
    included - they are never stored, so this is the only place they can be observed"""

    def __init__(self, cl, path="/?follow=true"):
        import socket, threading
        self.s = socket.socket(socket.AF_UNIX, socket.SOCK_STREAM)
        self.s.connect(cl.sock)
        self.s.sendall(H.render("GET", path, {"Connection": "keep-alive"}))
        self.buf = b""
        self.stop = False
        self.t = threading.Thread(target=self._pump, daemon=True)
        self.t.start()

    def _pump(self):
        self.s.settimeout(0.2)
        while not self.stop:
            try:
                ch = self.s.recv(1 << 16)
                if not ch:
                    break
                self.buf += ch
            except Exception:
                continue

    def frames(self):
        """-> frames in the shape of Client.frames()"""
        self.stop = True
        self.t.join(timeout=2)
        try:
            self.s.close()
        except Exception:
            pass
        out = []
        for l in self.buf.split(b"\n"):
            l = l.strip()
            if l.startswith(b"{") and l.endswith(b"}"):
                try:
                    j = json.loads(l)
                    out.append(dict(id=H.s_to_id(j["id"]), ctx=H.s_to_id(j["context_id"]), topic=j["topic"], hash=j.get("hash"),
                                    meta=j.get("meta"), ttl=H.frame_canon(j).split(",")[-1] if False else _ttl_canon(j.get("ttl"))))
                except Exception:
                    pass
        return out


def _ttl_canon(t):
    if t is None:
        return "-"
    if t.startswith(("time:", "head:")):
        return t.split(":")[0] + ":%x" % int(t.split(":")[1])
    return t


# ---- handler script DSL ----------------------------------------------------------------------
def nu_str(s):
    return json.dumps(s, ensure_ascii=False)


def render_handler(p):
    """p: dict(guard, appends=[dict(topic, meta, ttl, ctx, content)], ret, fail, resume, suffix, ttl)"""
    lines = ["{"]
    if p.get("module"):
        lines.append('  modules: { m1: "export def f [] { \\"mod-out\\" }" }')
    if p.get("pulse"):
        lines.append(f"  pulse: {p['pulse']}")
    if p.get("resume"):
        lines.append(f"  resume_from: {nu_str(p['resume'])}")
    if p.get("suffix") or p.get("ttl"):
        ro = []
        if p.get("suffix"):
            ro.append(f"suffix: {nu_str(p['suffix'])}")
        if p.get("ttl"):
            ro.append(f"ttl: {nu_str(p['ttl'])}")
        lines.append("  return_options: {" + ", ".join(ro) + "}")
    body = []
    if p.get("guard") is not None:
        body.append(f"    if $frame.topic != {nu_str(p['guard'])} {{ return }}")
    if p.get("slow_ms"):
        body.insert(0, f"    if $frame.topic == \"slow\" {{ sleep {p['slow_ms']}ms }}")
    body.append("    $env.count = (($env.count? | default 0) + 1)")
    fail = p.get("fail", "none")
    if fail == "before":
        body.append('    error make {msg: "boom"}')
    for k, a in enumerate(p.get("appends", [])):
        if fail == f"between:{k}":
            body.append('    error make {msg: "boom"}')
        cmd = f"    {nu_str(a['content'])} | .append {nu_str(a['topic'])}"
        if a.get("meta") is not None:
            cmd += " --meta " + "{" + ", ".join(f"{k2}: {nu_str(v) if isinstance(v, str) else v}" for k2, v in a["meta"].items()) + "}"
        if a.get("ttl"):
            cmd += f" --ttl {nu_str(a['ttl'])}"
        if a.get("ctx") is not None:
            cmd += f" --context {nu_str(H.id_to_s(a['ctx']))}"
        body.append(cmd)
    if fail == "after" or (fail.startswith("between:") and int(fail.split(":")[1]) >= len(p.get("appends", []))):
        body.append('    error make {msg: "boom"}')
    ret = p.get("ret", "nothing")
    if ret == "nothing":
        body.append("    null")
    elif ret.startswith("str:"):
        body.append("    " + nu_str(ret[4:]))
    elif ret.startswith("int:"):
        body.append("    " + ret[4:])
    elif ret == "count":
        body.append("    $env.count")
    elif ret == "topic":
        body.append("    $frame.topic")
    elif ret == "frame":
        body.append("    $frame")
    elif ret == "mod":
        body.append("    m1 f")
    lines.append("  run: {|frame|\n" + "\n".join(body) + "\n  }")
    lines.append("}")
    return "\n".join(lines)


def ttl_tok(t):
    if not t:
        return "-"
    if ":" in t:
        k, v = t.split(":")
        return f"{k}:{int(v):x}"
    return t


def model_handler(conf, p, delivered):
    """run the extracted dispatch model; -> (emitted list of dicts, seen ids)"""
    lines = [f"CONF id={H.hex32(conf['id'])} ctx={H.hex32(conf['ctx'])} name={xh(conf['name'])} "
             f"suffix={xh(p.get('suffix') or '.out')} ttl={ttl_tok(p.get('ttl'))}"]
    fail = p.get("fail", "none")
    ret = p.get("ret", "nothing")
    if ret == "frame":
        ret = "topic"     # same emission structure; the content (the frame record as JSON) is filled in by the caller
    if ret == "mod":
        ret = "str:mod-out"   # the value a command of the script's own module returns
    if ret.startswith("str:"):
        ret = "str:" + xh(ret[4:])
    elif ret.startswith("int:"):
        ret = "int:%x" % int(ret[4:])
    prog = f"PROG guard={xh(p['guard']) if p.get('guard') is not None else '-'} ret={ret} fail={fail}"
    for a in p.get("appends", []):
        meta = json.dumps(a["meta"], separators=(",", ":")) if a.get("meta") is not None else None
        prog += f" A {xh(a['topic'])} {xh(meta) if meta else '-'} {ttl_tok(a.get('ttl'))} " \
                f"{H.hex32(a['ctx']) if a.get('ctx') is not None else '-'} {xh(a['content'])}"
    lines.append(prog)
    for f in delivered:
        hid = None
        if f["meta"] and isinstance(f["meta"].get("handler_id"), str):
            try:
                hid = H.s_to_id(f["meta"]["handler_id"])
            except Exception:
                hid = None
        lines.append(f"F {H.hex32(f['id'])} {H.hex32(f['ctx'])} {xh(f['topic'])} {H.hex32(hid) if hid is not None else '-'}")
    m = subprocess.run([build.XSMODEL, "handler"], input=("\n".join(lines) + "\n").encode(), stdout=subprocess.PIPE,
                       stderr=subprocess.PIPE, timeout=60)
    if m.returncode:
        raise RuntimeError("xsmodel handler: " + m.stderr.decode()[-300:])
    emitted, seen = [], []
    for l in m.stdout.decode().splitlines():
        t = l.split(" ")
        if t[0] == "E":
            emitted.append(dict(topic=unxh(t[1]).decode(), ctx=int(t[2], 16), hid=int(t[3], 16), fid=int(t[4], 16), ttl=t[5],
                                content=unxh(t[6]) if t[6] != "-" else None,
                                meta=strip_stamps(json.loads(unxh(t[7]))) if t[7] != "-" else None, err=t[8] == "1"))
        elif t[0] == "SEEN":
            seen.append(int(t[1], 16))
    return emitted, seen


def strip_stamps(m):
    """the dispatcher overwrites these keys whatever the script put there"""
    u = {k: v for k, v in m.items() if k not in ("handler_id", "frame_id")}
    return u or None


def observed_outputs(cl, frames, hid, exclude=()):
    """frames the real handler `hid` appended, in id order, in the model's vocabulary"""
    out = []
    hs = H.id_to_s(hid)
    for f in frames:
        m = f["meta"]
        if m and m.get("handler_id") == hs and not f["topic"].endswith(".registered") and f["id"] not in exclude:
            user = {k: v for k, v in m.items() if k not in ("handler_id", "frame_id", "error")}
            fid = None
            try:
                fid = H.s_to_id(m.get("frame_id")) if m.get("frame_id") else None
            except Exception:
                fid = "unparsable"
            out.append(dict(topic=f["topic"], ctx=f["ctx"], hid=hid, fid=fid, ttl=f["ttl"],
                            content=cl.cas(f["hash"]) if f["hash"] else None,
                            meta=user or None, err="error" in m))
    return out


def patch_frame_returns(em, inst, p, by_id):
    """ret == frame: the return value is the triggering frame as a record - value_to_json(..).to_string(): compact JSON in
    the record's own member order (serde_json is built with preserve_order here)"""
    if p.get("ret") != "frame":
        return
    for e in em:
        if e["topic"] == inst["name"] + (p.get("suffix") or ".out") and e["fid"] in by_id and not e["err"]:
            t = by_id[e["fid"]]
            rec = {"id": H.id_to_s(t["id"]), "topic": t["topic"], "context_id": H.id_to_s(t["ctx"])}
            if t["hash"]:
                rec["hash"] = t["hash"]
            if t["meta"] is not None:
                rec["meta"] = t["meta"]
            e["content"] = json.dumps(rec, separators=(",", ":"), ensure_ascii=False).encode()


# ---- handler scenarios -------------------------------------------------------------------------
TRIG_TOPICS = ["trig", "side", "other", "t0", "t1", "t2", "h1.note", "h2.note"]


def gen_prog(r, name, ctxs, k=0):
    """topic graph is acyclic (trig/t<k> -> side -> aux/note) except for the self-loop on the
    handler's own guard topic, which its stamp must break (C14: never its own output)"""
    own = f"t{k}"
    # name + ".note": frames under the handler's own name prefix that are NOT registration traffic
    # (left by an earlier instance of the same name, or appended by a client) must be processed too
    guard = r.choice(["trig", "trig", own, "side", name + ".note"])
    if guard == "side":
        outs = ["aux", name + ".note"]
    elif guard == name + ".note":
        outs = ["aux"]
    else:
        outs = ["side", "aux", name + ".note", guard if guard == own else "side"]
    if r.random() < 0.12:
        # a handler that unregisters itself: its own <name>.unregister carries its stamp but must still stop it
        outs = outs + [name + ".unregister"] * 3
    appends = []
    for _ in range(r.choice([0, 0, 1, 2, 3])):
        tp = r.choice(outs)
        appends.append(dict(
            topic=tp,
            meta=r.choice([None, None, {"k": 1}, {"handler_id": "zzz", "frame_id": "yyy", "u": "v"}, {"n": 7, "s": "t"}]),
            # ephemeral outputs only on a topic nothing reacts to (they reach live subscribers only)
            ttl=r.choice([None, None, "forever", "time:600000"] + (["ephemeral", "ephemeral"] if tp == "aux" else [])),
            ctx=r.choice([None, None] + ctxs),
            content=r.choice(["c1", "héllo wörld", "x" * 300])))
    fail = r.choices(["none", "before", "after", "between"], [8, 1, 1, 1])[0]
    if fail == "between":
        fail = f"between:{r.randrange(0, len(appends) + 1)}"
    ret = r.choice(["nothing", "count", "count", "str:pong", "int:42", "topic", "frame", "frame", "mod"])
    return dict(guard=guard, appends=appends, ret=ret, module=(ret == "mod" or r.random() < 0.1),
                fail=fail, resume=r.choice(["tail", "tail", "head", "after"]), slow_ms=r.choice([0, 0, 1200]),
                pulse=r.choice([None, None, None, 150]),
                suffix=r.choice([None, None, ".x", ".reply"]), ttl=r.choice([None, None, "time:600000", "forever", "ephemeral"]))


def run_handler_scenario(seed, n_events=14):
    """-> dict(violations=[...], n_handlers, n_triggers, n_outputs, detail)"""
    r = random.Random(seed)
    cl = Client("api,handlers")
    report = dict(seed=seed, violations=[], instances=0, triggers=0, outputs=0, invocations=0, script_samples=[])
    try:
        ctxs = [0]
        for _ in range(r.choice([0, 1, 1, 2])):
            c = cl.append("xs.context")
            if c:
                ctxs.append(c)
        instances = []   # dict(id, ctx, name, prog, kind)
        forged = set()
        fol = Follower(cl)
        time.sleep(0.1)
        # some history before any handler exists
        pre = []
        for _ in range(r.choice([0, 3, 6])):
            i = cl.append(r.choice(TRIG_TOPICS), ctx=r.choice(ctxs), body=b"pre")
            if i:
                pre.append(i)

        def register(name, ctx, quick=False, forced=None):
            kind = r.choices(["ok", "parse_error", "no_arg"], [10, 1, 1])[0]
            if quick or forced:
                kind = "ok"
            if kind == "ok":
                p = dict(forced) if forced else gen_prog(r, name, ctxs, len(instances))
                if quick:
                    p["resume"] = "head"
                if p["resume"] == "after":
                    p["resume"] = H.id_to_s(r.choice(pre)) if pre else "head"
                script = render_handler(p)
            elif kind == "parse_error":
                p, script = None, "{ run: {|frame| "
            else:
                p, script = None, "{ run: {|| 42 } }"
            hid = cl.append(name + ".register", ctx=ctx, body=script.encode())
            if hid is None:
                return
            inst = dict(id=hid, ctx=ctx, name=name, prog=p, kind=kind)
            instances.append(inst)
            if len(report["script_samples"]) < 2:
                report["script_samples"].append(script[:400])
            if kind == "ok" and quick:
                # lifecycle traffic that is already in the store while the new (replaying) handler starts up
                cl.append(name + r.choice([".unregister", ".register"]), ctx=ctx,
                          body=render_handler(gen_prog(r, name, ctxs, 99)).encode())
                cl.settle(0.3, 6)
                fr0 = cl.frames()
                regs = [f for f in fr0 if f["topic"] == name + ".registered" and f["ctx"] == ctx and f["id"] > hid
                        and f["meta"] and f["meta"].get("handler_id") == H.id_to_s(hid)]
                inst["registered"] = regs[0]["id"] if regs else None
                if not regs:
                    inst["kind"] = "did_not_start"
            elif kind == "ok":
                reg = cl.wait_topic(name + ".registered", ctx=ctx, after=hid)
                inst["registered"] = reg["id"] if reg else None
                if reg is None:
                    # a script the model considers valid did not start: look for the reason
                    inst["kind"] = "did_not_start"
            else:
                cl.wait_topic(name + ".unregistered", ctx=ctx, after=hid)

        if r.random() < 0.5:
            # a two-stage pipeline in one context: h1 answers `trig` with a stored `side` frame and an EPHEMERAL `aux` frame (content
            # in CAS although never stored); h2 reacts to `side` - a frame stamped by h1 - and returns that frame itself
            c0 = r.choice(ctxs)
            register("h1", c0, forced=dict(guard="trig", fail="none", resume="tail", ret="count", suffix=None, ttl=None, slow_ms=0,
                                          appends=[dict(topic="side", meta={"k": 1}, ttl=None, ctx=None, content="c1"),
                                                   dict(topic="aux", meta=None, ttl="ephemeral", ctx=None, content="héllo wörld"),
                                                   # --context naming ANOTHER context: the frame still lands in the handler's own
                                                   dict(topic="aux", meta=None, ttl=None, content="scoped",
                                                        ctx=next((x for x in ctxs if x != c0), None))]))
            # a closure that appends and THEN fails: none of its appends may appear, only <name>.unregistered with the error
            register("h3", c0, forced=dict(guard="t2", fail="after", resume="tail", ret="count", suffix=None, ttl=None, slow_ms=0,
                                          appends=[dict(topic="aux", meta={"n": 7, "s": "t"}, ttl=None, ctx=None, content="c1")]))
            cl.append("t2", ctx=c0, body=b"t"); report["triggers"] += 1
            register("h2", c0, forced=dict(guard="side", fail="none", resume="tail", ret="frame", suffix=r.choice([None, ".x"]),
                                          ttl=r.choice([None, "ephemeral"]), slow_ms=0, appends=[]))
            for _ in range(2):
                cl.append("trig", ctx=c0, body=b"t"); report["triggers"] += 1
        else:
            register("h1", r.choice(ctxs))
        for _ in range(n_events):
            k = r.choices(["trig", "other", "register", "unregister", "forged", "burst", "quickreg"], [8, 3, 2, 1, 1, 1, 1])[0]
            if k == "trig":
                cl.append(r.choice(["trig", "trig", "side", "t0", "t1", "h1.note", "h2.note"]), ctx=r.choice(ctxs), body=b"t"); report["triggers"] += 1
            elif k == "other":
                cl.append(r.choice(TRIG_TOPICS), ctx=r.choice(ctxs))
            elif k == "register":
                register(r.choice(["h1", "h1", "h2"]), r.choice(ctxs))
            elif k == "quickreg":
                register(r.choice(["h1", "h2"]), r.choice(ctxs), quick=True)
            elif k == "unregister" and instances:
                inst = r.choice(instances)
                cl.append(inst["name"] + ".unregister", ctx=r.choice([inst["ctx"], inst["ctx"], r.choice(ctxs)]))
            elif k == "forged" and instances:
                inst = r.choice(instances)   # a foreign frame carrying the handler's id in its meta is skipped like own output
                fid = cl.append("trig", ctx=inst["ctx"], meta={"handler_id": H.id_to_s(inst["id"])})
                forged.add(fid)
            elif k == "burst":
                for _ in range(5):
                    cl.append("trig", ctx=r.choice(ctxs), body=b"b"); report["triggers"] += 1
        # a burst from several writers while a handler is busy with one frame: nothing may be skipped, reordered or lost
        slow = [i for i in instances if i["kind"] == "ok" and i["prog"] and i["prog"].get("slow_ms")]
        if slow and r.random() < 0.6:
            import threading
            inst = r.choice(slow)
            cl.append("slow", ctx=inst["ctx"])
            def writer(seed_):
                rr = random.Random(seed_)
                for _ in range(100):
                    cl.append(rr.choice(["trig", "trig", "other", "t0"]), ctx=inst["ctx"], body=b"w")
            ths = [threading.Thread(target=writer, args=(r.getrandbits(32),)) for _ in range(3)]
            for t in ths:
                t.start()
            for t in ths:
                t.join()
            report["triggers"] += 300
            report["bursts_while_busy"] = report.get("bursts_while_busy", 0) + 1
            # the sleeping handler wakes up only after its nap: do not mistake the pause for the end
            time.sleep(inst["prog"]["slow_ms"] / 1000 + 0.5)
            cl.settle(1.5, 120)
        cl.settle(0.6, 60)
        stored = cl.frames()
        eph = [f for f in fol.frames() if f["ttl"] == "ephemeral"]
        report["ephemeral_outputs_seen_by_follower"] = len(eph)
        have = {f["id"] for f in stored}
        fr = sorted(stored + [f for f in eph if f["id"] not in have], key=lambda f: f["id"])
        by_id = {f["id"]: f for f in fr}
        report["instances"] = len(instances)
        for inst in instances:
            hs = H.id_to_s(inst["id"])
            obs = observed_outputs(cl, fr, inst["id"], forged)
            report["outputs"] += len(obs)
            if inst["kind"] in ("parse_error", "no_arg", "did_not_start"):
                unreg = [o for o in obs if o["topic"] == inst["name"] + ".unregistered"]
                superseding = [f["id"] for f in fr if f["ctx"] == inst["ctx"] and f["id"] > inst["id"]
                               and f["topic"] in (inst["name"] + ".register", inst["name"] + ".unregister")]
                if (inst["kind"] == "did_not_start" and len(obs) == 1 and obs[0]["topic"] == inst["name"] + ".unregistered"
                        and not obs[0]["err"] and obs[0]["fid"] in superseding):
                    continue    # replaced / unregistered before it had started to listen: it stood down and said so
                if inst["kind"] == "did_not_start":
                    report["violations"].append(dict(what=f"handler {inst['name']} with a valid script was never announced as registered",
                                                     script=render_handler(inst["prog"]), outputs=[str(o)[:200] for o in obs][:3]))
                elif len(unreg) != 1 or not unreg[0]["err"] or len(obs) != 1:
                    report["violations"].append(dict(what=f"invalid handler script must yield exactly one {inst['name']}.unregistered "
                                                          f"carrying the error; got {[o['topic'] for o in obs]}"))
                continue
            p = inst["prog"]
            if p["resume"] == "head":
                start = 0
            elif p["resume"] == "tail":
                start = inst["registered"]
            else:
                start = H.s_to_id(p["resume"])
            # resume tail = "from the moment of registration": the subscription is taken (since the fix for F14) BEFORE the
            # .registered announcement is appended, so a frame appended by a concurrent writer in between is delivered too -
            # every start point between the register frame and the announcement is a correct reading of the property
            starts = [start]
            if p["resume"] == "tail":
                starts += [f["id"] for f in fr if inst["id"] <= f["id"] < inst["registered"]][::-1]
            em, seen = None, None
            for st_ in starts:
                delivered = [f for f in fr if f["ctx"] == inst["ctx"] and f["id"] > st_]
                em_, seen_ = model_handler(dict(id=inst["id"], ctx=inst["ctx"], name=inst["name"]), p, delivered)
                patch_frame_returns(em_, inst, p, by_id)
                if em is None:
                    em, seen = em_, seen_
                if em_ == obs:
                    em, seen = em_, seen_
                    break
            if False and p.get("ret") == "frame":
                # the return value is the triggering frame as a record: value_to_json(..).to_string() = compact JSON
                for e in em:
                    if e["topic"] == inst["name"] + (p.get("suffix") or ".out") and e["fid"] in by_id and not e["err"]:
                        t = by_id[e["fid"]]
                        rec = {"id": H.id_to_s(t["id"]), "topic": t["topic"], "context_id": H.id_to_s(t["ctx"])}
                        if t["hash"]:
                            rec["hash"] = t["hash"]
                        if t["meta"] is not None:
                            rec["meta"] = t["meta"]
                        # (member order = the record's own order: serde_json is built with preserve_order here)
                        e["content"] = json.dumps(rec, separators=(",", ":"), ensure_ascii=False).encode()
            report["invocations"] += len(seen)
            if em != obs:
                k = next((i for i, (a, b) in enumerate(zip(em, obs)) if a != b), min(len(em), len(obs)))
                report["violations"].append(dict(
                    what=f"handler {inst['name']} (context {'zero' if inst['ctx'] == 0 else 'non-zero'}, resume {p['resume'][:6]}) "
                         f"appended {len(obs)} frames, the dispatch model replayed on the same stream gives {len(em)}; first difference at #{k}: "
                         f"impl {str(obs[k])[:260] if k < len(obs) else 'nothing'} vs model {str(em[k])[:260] if k < len(em) else 'nothing'}",
                    script=render_handler(p), handler_id=hs))
        return report
    finally:
        cl.close()


def announce_race(delay_ms=400):
    """C16: once <name>.registered is visible the handler must be subscribed. The serve task is held
    at its entry (sync point handler.serve.enter) so that the announce overtakes the subscription;
    a client that appends as soon as it sees .registered must still be served."""
    cl = Client("api,handlers", env={"XSV_HOOK_SLEEP": f"handler.serve.enter:{delay_ms}"})
    try:
        script = '{ resume_from: "tail", run: {|frame| if $frame.topic != "trig" { return }; "pong" } }'
        hid = cl.append("h.register", body=script.encode())
        reg = cl.wait_topic("h.registered", after=hid)
        if reg is None:
            return dict(error="never registered")
        t = cl.append("trig", body=b"now")          # appended on sight of .registered
        time.sleep(delay_ms / 1000 + 0.3)
        t2 = cl.append("trig", body=b"later")       # control: certainly after the subscription
        cl.settle()
        outs = [f for f in cl.frames() if f["topic"] == "h.out"]
        fids = [H.s_to_id(f["meta"]["frame_id"]) for f in outs if f["meta"]]
        return dict(first_served=t in fids, control_served=t2 in fids, n_out=len(outs))
    finally:
        cl.close()


# ---- restart scenarios (C17) ---------------------------------------------------------------------
HANDLER_PONG = '{ resume_from: "tail", run: {|frame| if $frame.topic != "trig" { return }; "pong" } }'
HANDLER_BAD = "{ run: {|| 42 } }"
CMD_ECHO = '{ run: {|frame| "c-out" } }'
GEN_DUPLEX = 'each { |x| $"hi: ($x)" }'


def classify(frames):
    """the dispatcher-relevant history as model rframes: (id, ctx, name, kind, ref)"""
    out = []
    for f in frames:
        t = f["topic"]
        kind = None
        for suf, k in ((".register", "register"), (".unregistered", "unregistered"), (".unregister", "unregister"),
                       (".spawn.error", "spawn.error"), (".spawn", "spawn"), (".define", "define")):
            if t.endswith(suf):
                kind, name = k, t[: -len(suf)]
                break
        if kind is None:
            continue
        ref = None
        if f["meta"]:
            v = f["meta"].get("handler_id") or (f["meta"].get("source_id") if kind == "spawn.error" else None)
            try:
                ref = H.s_to_id(v) if isinstance(v, str) else None
            except Exception:
                ref = None
        out.append((f["id"], f["ctx"], name, kind, ref))
    return out


def model_restart(rframes, by_ctx=True):
    lines = [f"R {H.hex32(i)} {H.hex32(c)} {xh(n)} {k} {H.hex32(r) if r is not None else '-'}" for (i, c, n, k, r) in rframes]
    m = subprocess.run([build.XSMODEL, "restart", "1" if by_ctx else "0"], input=("\n".join(lines) + "\n").encode(),
                       stdout=subprocess.PIPE, stderr=subprocess.PIPE, timeout=60)
    res = {}
    for l in m.stdout.decode().splitlines():
        t = l.split(" ")
        res[t[0]] = [int(x, 16) for x in t[1:]]
    return res


def run_restart_scenario(seed, n_events=12, kill=True):
    """history of register/unregister/replace/invalid, spawn/refused spawn, define/redefine over several names and
    contexts -> restart on the same store -> which instances answer probes, by id"""
    r = random.Random(seed)
    cl = Client("api,handlers,generators,commands")
    rep = dict(seed=seed, violations=[], events=[])
    try:
        ctxs = [0]
        for _ in range(r.choice([1, 1, 2])):
            c = cl.append("xs.context")
            if c:
                ctxs.append(c)
        names = ["h", "h", "k"]
        for _ in range(n_events):
            ev = r.choices(["register", "unregister", "badreg", "spawn", "define", "call", "trig", "failreg"], [6, 2, 1, 3, 3, 1, 2, 1.5])[0]
            c = r.choice(ctxs)
            if ev == "register":
                n = r.choice(names)
                i = cl.append(n + ".register", ctx=c, body=HANDLER_PONG.encode())
                cl.wait_topic(n + ".registered", ctx=c, after=i or 0, timeout=5)
            elif ev == "failreg":
                # a handler whose results are ephemeral and whose closure fails on the first trigger: its failure report
                # (<name>.unregistered) is what keeps it from coming back at the next start
                n = r.choice(names)
                i = cl.append(n + ".register", ctx=c, body=('{ resume_from: "tail", return_options: {ttl: "ephemeral"}, run: {|frame| '
                                                           'if $frame.topic != "trig" { return }; error make {msg: "boom"} } }').encode())
                cl.wait_topic(n + ".registered", ctx=c, after=i or 0, timeout=5)
                cl.append("trig", ctx=c); cl.settle(0.3, 4)
            elif ev == "badreg":
                n = r.choice(names)
                i = cl.append(n + ".register", ctx=c, body=HANDLER_BAD.encode())
                cl.wait_topic(n + ".unregistered", ctx=c, after=i or 0, timeout=5)
            elif ev == "unregister":
                n = r.choice(names)
                i = cl.append(n + ".unregister", ctx=c)
                cl.settle(0.25, 3)
            elif ev == "spawn":
                n = r.choice(["g", "g", "g2"])
                i = cl.append(n + ".spawn", ctx=c, body=GEN_DUPLEX.encode(), meta={"duplex": True})
                cl.settle(0.25, 3)
            elif ev == "define":
                n = r.choice(["c", "c", "d"])
                cl.append(n + ".define", ctx=c, body=(CMD_ECHO if r.random() < 0.85 else "{ run: {|frame| ").encode())
                cl.settle(0.2, 3)
            elif ev == "call":
                cl.append(r.choice(["c", "d"]) + ".call", ctx=c); cl.settle(0.25, 3)
            else:
                cl.append("trig", ctx=c); cl.settle(0.2, 3)
            rep["events"].append(f"{ev}@{ctxs.index(c)}")
        if r.random() < 0.5:
            # a definition that answers, then a broken redefinition of the same name (rejected: the old one keeps answering) -
            # the restart must bring back the one that was in force
            n, c = r.choice(["c", "d"]), r.choice(ctxs)
            cl.append(n + ".define", ctx=c, body=CMD_ECHO.encode()); cl.settle(0.2, 3)
            cl.append(n + ".define", ctx=c, body=b"{ run: {|frame| "); cl.settle(0.2, 3)
            rep["events"] += [f"define@{ctxs.index(c)}", f"baddefine@{ctxs.index(c)}"]
        cl.settle()
        before = cl.frames()
        hist = classify(before)
        # live truth before the restart: which instances answer now
        def probe(client, after_id):
            act = dict(handlers=set(), generators=set(), commands=set())
            marks = {}
            for c in ctxs:
                marks[("trig", c)] = client.append("trig", ctx=c)
                for g in ("g", "g2"):
                    marks[(g, c)] = client.append(g + ".send", ctx=c, body=b"probe")
                for n in ("c", "d"):
                    marks[(n + ".call", c)] = client.append(n + ".call", ctx=c)
            client.settle(0.5, 20)
            for f in client.frames():
                if f["id"] <= after_id or not f["meta"]:
                    continue
                m = f["meta"]
                try:
                    if f["topic"].endswith(".out") and m.get("handler_id"):
                        act["handlers"].add((H.s_to_id(m["handler_id"]), f["ctx"]))
                    if f["topic"].endswith(".recv") and m.get("source_id"):
                        act["generators"].add((H.s_to_id(m["source_id"]), f["ctx"]))
                    if f["topic"].endswith(".recv") and m.get("command_id"):
                        act["commands"].add((H.s_to_id(m["command_id"]), f["ctx"]))
                except Exception:
                    pass
            return act
        last_id = before[-1]["id"] if before else 0
        live = probe(cl, last_id)
        pre_kill_ids = {f["id"] for f in cl.frames()}
        path = cl.path
        if kill:
            cl.kill()
        else:
            cl.p.stdin.write("quit\n"); cl.p.stdin.flush(); cl.p.wait(timeout=5)
        if live["handlers"] and r.random() < 0.6:
            # while the services are down, an `<name>.unregister` for a handler that was answering is written to the store
            # (api only: nobody acknowledges it), followed by a stretch of other traffic in its context: the restart must
            # honour it however far behind the registration it lies
            hid, hc = r.choice(sorted(live["handlers"]))
            reg = next((f for f in before if f["id"] == hid), None)
            if reg is not None and reg["topic"].endswith(".register"):
                off = Client("api", path=path)
                try:
                    for k in range(r.choice([0, 40, 70])):
                        off.append("noise", ctx=hc, body=b"n%d" % k)
                    off.append(reg["topic"][: -len(".register")] + ".unregister", ctx=hc)
                    for k in range(r.choice([0, 3, 40])):
                        off.append("noise", ctx=hc, body=b"m%d" % k)
                finally:
                    off.kill()
                live["handlers"].discard((hid, hc))
                rep["events"].append(f"offline-unregister@{ctxs.index(hc)}")
        cl2 = Client("api,handlers,generators,commands", path=path)
        try:
            time.sleep(0.3)
            cl2.settle(0.4, 10)
            mid = cl2.frames()
            after = probe(cl2, mid[-1]["id"] if mid else 0)
            # the frames written by the probes before the restart are part of the history the new server replays
            hist2 = classify(mid)
            spec = model_restart(hist2, True)
            code = model_restart(hist2, False)
            rep["n_hist"] = len(hist2)
            ids = lambda s_: sorted({i for (i, c) in s_})
            for kind, speckey in (("handlers", "spec_handlers"), ("generators", "spec_generators")):
                want = sorted(spec[speckey])
                got = ids(after[kind])
                if got != want:
                    rep["violations"].append(dict(
                        what=f"after the restart the active {kind} are {[hex(i)[-6:] for i in got]} but the history says "
                             f"{[hex(i)[-6:] for i in want]} should be active (keyed by (context, name)); before the restart "
                             f"{[hex(i)[-6:] for i in ids(live[kind])]} answered; events: {' '.join(rep['events'])}",
                        kind=kind, spec=want, got=got, name_keyed_model=sorted(code[kind])))
            # nothing that had stopped answering before the process went down may answer again afterwards (e.g. a handler
            # whose failure report was not stored)
            for kind in ("handlers", "generators"):
                back = sorted(set(ids(after[kind])) - set(ids(live[kind])))
                if back:
                    rep["violations"].append(dict(
                        what=f"{kind} {[hex(i)[-6:] for i in back]} did not answer before the restart (stopped, failed or replaced) but "
                             f"answer after it; events: {' '.join(rep['events'])}", kind=kind + "-came-back"))
            # commands: the table in force is whatever the code keeps; what must hold: same answers before and after
            if ids(after["commands"]) != ids(live["commands"]):
                rep["violations"].append(dict(
                    what=f"commands answering after the restart {[hex(i)[-6:] for i in ids(after['commands'])]} differ from "
                         f"before {[hex(i)[-6:] for i in ids(live['commands'])]}; events: {' '.join(rep['events'])}", kind="commands"))
            # nothing re-executed: every frame that appeared after the process went down and that is stamped with the id of
            # a frame stored before it went down is a re-execution of a historical trigger / call
            for f in cl2.frames():
                if f["id"] in pre_kill_ids or not f["meta"]:
                    continue
                fid = f["meta"].get("frame_id")
                if fid and f["topic"].endswith((".out", ".recv", ".complete", ".error")):
                    try:
                        if H.s_to_id(fid) in pre_kill_ids:
                            rep["violations"].append(dict(what=f"a historical trigger/call {fid} was re-executed after the restart "
                                                               f"(new frame {f['topic']}); events: {' '.join(rep['events'])}", kind="replay"))
                    except Exception:
                        pass
        finally:
            cl2.close()
        cl = None
        return rep
    finally:
        if cl is not None:
            cl.close()


# ---- command scenarios (C19) ---------------------------------------------------------------------
def render_command(p):
    """p: dict(values=[...], appends=[dict(topic, meta, content)], fail, suffix, ttl, slow_ms, count)"""
    lines = ["{"]
    if p.get("module"):
        lines.append('  modules: { m2: "export def g [] { [\\"m-a\\" \\"m-b\\"] }" }')
    if p.get("suffix") or p.get("ttl"):
        ro = []
        if p.get("suffix"):
            ro.append(f"suffix: {nu_str(p['suffix'])}")
        if p.get("ttl"):
            ro.append(f"ttl: {nu_str(p['ttl'])}")
        lines.append("  return_options: {" + ", ".join(ro) + "}")
    body = ["    $env.count = (($env.count? | default 0) + 1)"]
    if p.get("slow_ms"):
        body.append(f"    sleep {p['slow_ms']}ms")
    for a in p.get("appends", []):
        cmd = f"    {nu_str(a['content'])} | .append {nu_str(a['topic'])}"
        if a.get("meta") is not None:
            cmd += " --meta {" + ", ".join(f"{k}: {nu_str(v) if isinstance(v, str) else v}" for k, v in a["meta"].items()) + "}"
        body.append(cmd)
    if p.get("fail"):
        body.append('    error make {msg: "boom"}')
    vals = p.get("values", [])
    if p.get("lazyerr"):
        # a stream whose second item fails when it is pulled: the item arrives as an error VALUE (rendered as null), the call
        # still has exactly one terminal event
        body.append('    [1 2 3] | each {|x| if $x == 2 { error make {msg: "boom"} } else { $x } }')
    elif p.get("module"):
        body.append("    m2 g")          # the values come from a command of the script's own module
    elif p.get("count"):
        body.append("    [$env.count]")
    elif p.get("single") and vals:
        body.append("    " + nu_str(vals[0]))
    else:
        body.append("    [" + ", ".join(nu_str(v) for v in vals) + "]")
    lines.append("  run: {|frame|\n" + "\n".join(body) + "\n  }")
    lines.append("}")
    return "\n".join(lines)


def model_service(lines):
    m = subprocess.run([build.XSMODEL, "service"], input=("\n".join(lines) + "\n").encode(), stdout=subprocess.PIPE,
                       stderr=subprocess.PIPE, timeout=60)
    if m.returncode:
        raise RuntimeError("xsmodel service: " + m.stderr.decode()[-300:])
    blocks, cur = [], None
    for l in m.stdout.decode().splitlines():
        t = l.split(" ")
        if t[0] in ("CALLFRAMES", "LIFECYCLES"):
            cur = []; blocks.append(cur)
        elif t[0] == "ACTION":
            blocks.append(t[1:])
        elif t[0] == "INPUT":
            blocks.append([unxh(x) for x in t[1:]])
        elif t[0] == "E" and cur is not None:
            cur.append(dict(topic=unxh(t[1]).decode(), ctx=int(t[2], 16), hid=int(t[3], 16), fid=int(t[4], 16), ttl=t[5],
                            content=unxh(t[6]) if t[6] != "-" else None,
                            meta=json.loads(unxh(t[7])) if t[7] != "-" else None, err=t[8] == "1"))
    return blocks


def run_command_scenario(seed, n_events=12):
    r = random.Random(seed)
    cl = Client("api,commands")
    rep = dict(seed=seed, violations=[], calls=0, frames=0, events=[], scripts=[])
    try:
        ctxs = [0]
        for _ in range(r.choice([0, 1, 1])):
            c = cl.append("xs.context")
            if c:
                ctxs.append(c)
        defs = {}      # def id -> prog
        evs = []       # (id, kind, name, ctx, valid)
        names = ["c", "c", "d"]
        # a call before any definition: never executed
        i0 = cl.append("c.call", ctx=r.choice(ctxs))
        evs.append((i0, "call", "c", 0, None))
        for _ in range(n_events):
            k = r.choices(["define", "baddefine", "call", "burstcalls", "other", "samedefine"], [3, 1, 6, 1, 1, 1.5])[0]
            c = r.choice(ctxs)
            n = r.choice(names)
            if k == "samedefine":
                # the same script again, byte for byte (a bootstrap script re-appending its definitions): it is a NEW
                # definition - later calls are stamped with ITS id
                prev = [(i, kind, n2, c2, valid) for (i, kind, n2, c2, valid) in evs if kind == "define" and valid and i in defs]
                if prev:
                    (pi, _, n, c, _) = r.choice(prev)
                    i = cl.append(n + ".define", ctx=c, body=render_command(defs[pi]).encode())
                    defs[i] = defs[pi]
                    evs.append((i, "define", n, c, True))
                    cl.settle(0.15, 3)
                    i2 = cl.append(n + ".call", ctx=c)
                    evs.append((i2, "call", n, c, None)); rep["calls"] += 1
                    cl.settle(0.2, 5)
                    rep["events"].append(k)
                continue
            if k == "define":
                p = dict(values=[r.choice(["a", "b", "héllo", "x" * 200]) for _ in range(r.choice([0, 1, 2, 3]))],
                         appends=[dict(topic=r.choice(["side", n + ".note"]), meta=r.choice([None, {"k": 1}]), content="c1")
                                  for _ in range(r.choice([0, 0, 1, 2]))],
                         fail=r.random() < 0.15, suffix=r.choice([None, None, ".x"]), ttl=r.choice([None, "time:600000", "forever"]),
                         slow_ms=r.choice([0, 0, 150]), count=r.random() < 0.3, single=r.random() < 0.2)
                if r.random() < 0.2:
                    p.update(module=True, values=["m-a", "m-b"], count=False, single=False)
                elif r.random() < 0.2:
                    p.update(lazyerr=True, values=[1, None, 3], count=False, single=False, fail=False)
                script = render_command(p)
                i = cl.append(n + ".define", ctx=c, body=script.encode())
                defs[i] = p
                evs.append((i, "define", n, c, True))
                if len(rep["scripts"]) < 2:
                    rep["scripts"].append(script[:300])
                cl.settle(0.15, 3)
            elif k == "baddefine":
                # a script that does not parse, or options that are not valid (a TTL the grammar rejects): reported, never in force
                i = cl.append(n + ".define", ctx=c, body=r.choice([
                    b"{ run: {|frame| ", b'{ return_options: {ttl: "head:0"}, run: {|frame| "x" } }',
                    b'{ return_options: {ttl: "time:5s"}, run: {|frame| "x" } }', b'{ return_options: {ttl: 5}, run: {|frame| "x" } }']))
                evs.append((i, "define", n, c, False))
                cl.settle(0.15, 3)
            elif k == "call":
                i = cl.append(n + ".call", ctx=c, meta={"args": {"n": 1}})
                evs.append((i, "call", n, c, None)); rep["calls"] += 1
                if r.random() < 0.6:
                    cl.settle(0.2, 5)
            elif k == "burstcalls":
                for _ in range(3):
                    cc = r.choice(ctxs)
                    i = cl.append(n + ".call", ctx=cc)
                    evs.append((i, "call", n, cc, None)); rep["calls"] += 1
            else:
                cl.append("other", ctx=c)
            rep["events"].append(k)
        if r.random() < 0.5:
            # a definition that answers, then a broken redefinition of the same name: the old one stays in force - also
            # across the restart below
            n, c = r.choice(["c", "d"]), r.choice(ctxs)
            p = dict(values=["keep"], appends=[], fail=False, suffix=None, ttl=None, slow_ms=0, count=False, single=False)
            i = cl.append(n + ".define", ctx=c, body=render_command(p).encode())
            defs[i] = p
            evs.append((i, "define", n, c, True)); cl.settle(0.15, 3)
            i = cl.append(n + ".define", ctx=c, body=b"{ run: {|frame| ")
            evs.append((i, "define", n, c, False)); cl.settle(0.15, 3)
            rep["events"] += ["define", "baddefine"]
        cl.settle(0.6, 30)
        fr = cl.frames()
        # which definition runs which call: the model's serve loop over the events in id order
        lines = []
        for (i, kind, n, c, valid) in sorted(e for e in evs if e[0]):
            if kind == "define":
                lines.append(f"EV define {H.hex32(i)} {H.hex32(c)} {xh(n)} {1 if valid else 0}")
            else:
                lines.append(f"EV call {H.hex32(i)} {H.hex32(c)} {xh(n)}")
        actions = model_service(lines)
        by_call = {}
        for f in fr:
            m = f["meta"]
            if m and m.get("frame_id") and m.get("command_id"):
                try:
                    by_call.setdefault(H.s_to_id(m["frame_id"]), []).append(f)
                except Exception:
                    pass
        # invalid definitions: exactly one <name>.error naming the definition
        for (i, kind, n, c, valid) in evs:
            if kind == "define" and valid is False and i:
                errs = [f for f in fr if f["topic"] == n + ".error" and f["meta"] and f["meta"].get("command_id") == H.id_to_s(i)
                        and not f["meta"].get("frame_id")]
                if len(errs) != 1:
                    rep["violations"].append(dict(what=f"invalid definition of `{n}`: expected exactly one {n}.error naming it, got {len(errs)}"))
        evs_sorted = sorted(e for e in evs if e[0])
        for ev, act in zip(evs_sorted, actions):
            (i, kind, n, c, valid) = ev
            if kind != "call":
                continue
            got = by_call.get(i, [])
            rep["frames"] += len(got)
            if act[0] == "none":
                if got:
                    rep["violations"].append(dict(what=f"call of undefined command `{n}` produced frames {[g['topic'] for g in got]}"))
                continue
            d = int(act[1], 16)
            p = defs[d]
            vals = [json.dumps(1)] if p.get("count") else [json.dumps(v, ensure_ascii=False) for v in (p["values"][:1] if p.get("single") and p["values"] else p["values"])]
            line = (f"CALL def={H.hex32(d)} name={xh(n)} suffix={xh(p.get('suffix') or '.recv')} ttl={ttl_tok(p.get('ttl'))} "
                    f"call={H.hex32(i)} ctx={H.hex32(c)} res={'err' if p.get('fail') else 'ok'}")
            for a in p.get("appends", []):
                meta = json.dumps(a["meta"], separators=(",", ":")) if a.get("meta") is not None else None
                line += f" A {xh(a['topic'])} {xh(meta) if meta else '-'} - {xh(a['content'])}"
            if not p.get("fail"):
                for v in vals:
                    line += f" V {xh(v)}"
            exp = model_service([line])[0]
            obs = []
            for f in got:
                m = f["meta"]
                user = {k2: v for k2, v in m.items() if k2 not in ("command_id", "frame_id", "error")}
                obs.append(dict(topic=f["topic"], ctx=f["ctx"], hid=H.s_to_id(m["command_id"]), fid=i, ttl=f["ttl"],
                                content=cl.cas(f["hash"]) if f["hash"] else None, meta=user or None, err="error" in m))
            for e in exp:
                e["meta"] = strip_cmd(e["meta"])
            if obs != exp:
                kx = next((j for j, (a, b) in enumerate(zip(exp, obs)) if a != b), min(len(exp), len(obs)))
                rep["violations"].append(dict(
                    what=f"call of `{n}` (definition {hex(d)[-6:]}, caller context {'zero' if c == 0 else 'non-zero'}) produced {len(obs)} frames "
                         f"{[o['topic'] for o in obs]}, the model says {len(exp)} {[e['topic'] for e in exp]}; first difference at #{kx}: "
                         f"impl {str(obs[kx])[:250] if kx < len(obs) else 'nothing'} vs model {str(exp[kx])[:250] if kx < len(exp) else 'nothing'}",
                    script=render_command(p)))
        # restart on the same store (process kill): stored calls are not executed again (cboot ignores calls), and the
        # definitions in force answer new calls exactly as the serve loop over the whole history says
        pre = {f["id"] for f in fr}
        path = cl.path
        cl.kill()
        cl2 = Client("api,commands", path=path)
        cl = None
        try:
            time.sleep(0.3)
            cl2.settle(0.4, 10)
            new_calls = []
            for n in ("c", "d"):
                c = r.choice(ctxs)
                i = cl2.append(n + ".call", ctx=c)
                if i:
                    new_calls.append((i, "call", n, c, None))
            cl2.settle(0.5, 20)
            fr2 = cl2.frames()
            for f in fr2:
                m = f["meta"]
                if f["id"] in pre or not m or not m.get("frame_id"):
                    continue
                try:
                    if H.s_to_id(m["frame_id"]) in pre:
                        rep["violations"].append(dict(
                            what=f"after a restart the stored call {m['frame_id']} was executed again (new frame {f['topic']}); "
                                 f"events: {' '.join(rep['events'])}"))
                        break
                except Exception:
                    pass
            lines2 = list(lines) + [f"EV call {H.hex32(i)} {H.hex32(c)} {xh(n)}" for (i, _, n, c, _) in new_calls]
            acts2 = model_service(lines2)[len(lines):]
            for (i, _, n, c, _), act in zip(new_calls, acts2):
                got = {m["command_id"] for f in fr2 for m in [f["meta"]] if m and m.get("frame_id") == H.id_to_s(i) and m.get("command_id")}
                want = set() if act[0] == "none" else {H.id_to_s(int(act[1], 16))}
                rep["calls"] += 1
                if got != want:
                    rep["violations"].append(dict(
                        what=f"after a restart a call of `{n}` was answered by definitions {sorted(got)}, the history says {sorted(want)}; "
                             f"events: {' '.join(rep['events'])}"))
        finally:
            cl2.close()
        return rep
    finally:
        if cl is not None:
            cl.close()


def strip_cmd(m):
    if not m:
        return None
    u = {k: v for k, v in m.items() if k not in ("command_id", "frame_id")}
    return u or None


# ---- generator scenarios (C18) -------------------------------------------------------------------
GEN_EXPRS = [
    ('"solo"', ["solo"]),
    ('["a", "b", "c"] | each {|x| $x}', ["a", "b", "c"]),
    ('1..4 | each {|x| $"v($x)"}', ["v1", "v2", "v3", "v4"]),
    ('[] | each {|x| $x}', []),
    ('["héllo", ""] | each {|x| $x}', ["héllo", ""]),
]


def duplex_model_check(cl, fr, spawn_id, ctx, name, short=False):
    """the instances of one duplex generator (its .start/.stop frames, by source_id) and what each was fed according to
    the extracted model (Service.instance_input over the observed stream) vs the .recv frames it produced -> list of
    violation strings"""
    sid = H.id_to_s(spawn_id)
    mine = [f for f in fr if f["meta"] and f["meta"].get("source_id") == sid]
    starts = [f["id"] for f in mine if f["topic"] == name + ".start"]
    stops = [f["id"] for f in mine if f["topic"] == name + ".stop"]
    stream = " ".join(f"S {H.hex32(f['id'])} {H.hex32(f['ctx'])} {xh(f['topic'])} "
                      f"{xh(cl.cas(f['hash']) or b'') if f['hash'] and f['topic'].endswith('.send') else '-'}" for f in fr)
    out = []
    for k, a in enumerate(starts):
        b = next((x for x in stops if x > a), 2 ** 128 - 1)
        nxt = starts[k + 1] if k + 1 < len(starts) else 2 ** 128
        fed = model_service([f"DUPLEX spawn={H.hex32(spawn_id)} ctx={H.hex32(ctx)} name={xh(name)} start={H.hex32(a)} stop={H.hex32(b)} {stream}"])[0]
        got = [cl.cas(f["hash"]) or b"" for f in mine if f["topic"] == name + ".recv" and a < f["id"] < nxt]
        if short:
            ok = all(x.startswith(b"hi: ") for x in got) and b"".join(x[4:] for x in got) == b"".join(fed)
        else:
            ok = got == [b"hi: " + x for x in fed]
        if not ok:
            out.append(f"duplex generator `{name}`, instance #{k + 1} (started by {hex(a)[-6:]}): the model feeds it {fed}, it produced {got}")
    return out


def run_generator_scenario(seed, max_wait_s=12.0):
    r = random.Random(seed)
    cl = Client("api,generators")
    rep = dict(seed=seed, violations=[], spawns=0, frames=0, lifecycles=0, exprs=[])
    try:
        ctxs = [0]
        c1 = cl.append("xs.context")
        if c1:
            ctxs.append(c1)
        gens = []   # dict(id, ctx, name, outs, kind)
        names = ["g1", "g2", "g3", "g4"]
        r.shuffle(names)
        for gi, n in enumerate(names[: r.choice([2, 3, 4])]):
            c = r.choice(ctxs)
            kind = r.choices(["plain", "duplex", "nocontent", "dupname", "duplexonce"], [5, 2, 1, 1, 2])[0]
            if gi == 0 and r.random() < 0.5:
                kind = "duplexonce"
            if kind == "duplexonce":
                # the pipeline ends after one input: the NEXT instance must be fed only what is sent after ITS start
                i = cl.append(n + ".spawn", ctx=c, body=b'each { |x| $"hi: ($x)" } | first 1', meta={"duplex": True})
                g1 = dict(id=i, ctx=c, name=n, outs=None, kind="duplexonce", sends=[])
                gens.append(g1)
                st1 = cl.wait_topic(n + ".start", ctx=c, after=i or 0, timeout=5)
                if st1:
                    # a second spawn of the name while the first runs is refused (one .spawn.error) and changes nothing for the
                    # running generator: it is still started again after each of its stops
                    j = cl.append(n + ".spawn", ctx=c, body=b"[1 2] | each { |x| $x }")
                    gens.append(dict(id=j, ctx=c, name=n, outs=None, kind="refused"))
                    cl.wait_topic(n + ".spawn.error", ctx=c, after=j or 0, timeout=5)
                    cl.append(n + ".send", ctx=c, body=f"first-{n}".encode()); g1["sends"].append(f"first-{n}")
                    sp = cl.wait_topic(n + ".stop", ctx=c, after=st1["id"], timeout=6)
                    st2 = cl.wait_topic(n + ".start", ctx=c, after=sp["id"], timeout=6) if sp else None
                    if st2:
                        cl.append("other", ctx=c)
                        cl.append(n + ".send", ctx=c, body=f"second-{n}".encode()); g1["sends"].append(f"second-{n}")
                        cl.wait_topic(n + ".stop", ctx=c, after=st2["id"], timeout=6)
            elif kind == "plain":
                expr, outs = r.choice(GEN_EXPRS)
                i = cl.append(n + ".spawn", ctx=c, body=expr.encode())
                gens.append(dict(id=i, ctx=c, name=n, outs=outs, kind="plain")); rep["exprs"].append(expr)
            elif kind == "duplex":
                # (a spawn appended by a handler carries the handler's stamps in its meta: other keys must not switch duplex off)
                i = cl.append(n + ".spawn", ctx=c, body=GEN_DUPLEX.encode(),
                              meta=r.choice([{"duplex": True}, {"duplex": True, "handler_id": "03gyxolvlf17xltnf3bd6jviu", "frame_id": "03gyxolvlf17xltnf3bd6jviv"},
                                             {"note": "x", "duplex": True}]))
                gens.append(dict(id=i, ctx=c, name=n, outs=None, kind="duplex", sends=[]))
            elif kind == "nocontent":
                i = cl.append(n + ".spawn", ctx=c)
                gens.append(dict(id=i, ctx=c, name=n, outs=None, kind="refused"))
            else:
                expr, outs = GEN_EXPRS[1]
                i = cl.append(n + ".spawn", ctx=c, body=GEN_DUPLEX.encode(), meta={"duplex": True})
                gens.append(dict(id=i, ctx=c, name=n, outs=None, kind="duplex", sends=[]))
                cl.settle(0.2, 3)
                j = cl.append(n + ".spawn", ctx=c, body=expr.encode())     # same name, same context: refused
                gens.append(dict(id=j, ctx=c, name=n, outs=None, kind="refused"))
            rep["spawns"] += 1
            cl.settle(0.15, 3)
        # duplex traffic interleaved with other frames
        for g in [g for g in gens if g["kind"] == "duplex"]:
            cl.wait_topic(g["name"] + ".start", ctx=g["ctx"], after=g["id"], timeout=5)
            # Nushell's chunk reader (nu-protocol ByteStream::chunks) holds a chunk shorter than 4 bytes back until more input
            # arrives and hands both over as ONE item: with short sends the items seen by `each` are a regrouping of the sends,
            # so those instances are compared on the concatenation of what was fed (exactly once, in order), closed by a
            # send of >= 4 bytes
            g["short"] = r.random() < 0.35
            for k in range(r.choice([1, 2, 4])):
                msg = r.choice(["a", "hi", "xyz", "é"]) if g["short"] else f"m{k}-{g['name']}"
                cl.append(g["name"] + ".send", ctx=g["ctx"], body=msg.encode())
                g["sends"].append(msg)
                if r.random() < 0.5:
                    cl.append("other", ctx=r.choice(ctxs))
            if g["short"]:
                cl.append(g["name"] + ".send", ctx=g["ctx"], body=b"-end-")
                g["sends"].append("-end-")
        # the same generator name in two contexts: each instance is fed only by the .send frames of its own context
        twin = None
        if len(ctxs) > 1 and r.random() < 0.7:
            ia = cl.append("twin.spawn", ctx=ctxs[0], body=GEN_DUPLEX.encode(), meta={"duplex": True})
            ib = cl.append("twin.spawn", ctx=ctxs[1], body=GEN_DUPLEX.encode(), meta={"duplex": True})
            cl.wait_topic("twin.start", ctx=ctxs[0], after=ia or 0, timeout=5)
            cl.wait_topic("twin.start", ctx=ctxs[1], after=ib or 0, timeout=5)
            cl.append("twin.send", ctx=ctxs[0], body=b"for-a")
            cl.append("twin.send", ctx=ctxs[1], body=b"for-b")
            twin = (ia, ib)
        # every plain generator is started again after EVERY stop: wait for three complete lifecycles of each
        t_end = time.time() + max_wait_s
        while time.time() < t_end:
            fr = cl.frames()
            if all(sum(1 for f in fr if f["topic"] == g["name"] + ".stop" and f["ctx"] == g["ctx"] and f["id"] > (g["id"] or 0)) >= 3
                   for g in gens if g["kind"] == "plain" and g["id"]):
                break
            time.sleep(0.1)
        cl.settle(0.3, 5)
        fr = cl.frames()
        if twin:
            for sid, c, want in ((twin[0], ctxs[0], b"hi: for-a"), (twin[1], ctxs[1], b"hi: for-b")):
                if not sid:
                    rep["violations"].append(dict(what="a spawn of `twin` was refused although no generator of that name runs in that context"))
                    continue
                recvs = [cl.cas(f["hash"]) for f in fr if f["topic"] == "twin.recv" and f["meta"] and f["meta"].get("source_id") == H.id_to_s(sid)]
                rep["frames"] += len(recvs)
                for w in duplex_model_check(cl, fr, sid, c, "twin"):
                    rep["violations"].append(dict(what=w))
                if recvs != [want]:
                    rep["violations"].append(dict(
                        what=f"duplex generator `twin` of context {'zero' if c == 0 else 'non-zero'} was fed {recvs} - expected exactly "
                             f"[{want!r}]: a .send appended in another context must not feed it"))
        for g in gens:
            sid = H.id_to_s(g["id"]) if g["id"] else None
            mine = [f for f in fr if f["meta"] and f["meta"].get("source_id") == sid]
            rep["frames"] += len(mine)
            obs = [dict(topic=f["topic"], ctx=f["ctx"], content=cl.cas(f["hash"]) if f["hash"] else None) for f in mine]
            if g["kind"] == "refused":
                errs = [o for o in obs if o["topic"] == g["name"] + ".spawn.error"]
                if len(errs) != 1 or len(obs) != 1:
                    rep["violations"].append(dict(what=f"a spawn of `{g['name']}` that cannot be honoured must yield exactly one "
                                                       f"{g['name']}.spawn.error naming it; got {[o['topic'] for o in obs]}"))
                continue
            if g["kind"] in ("duplex", "duplexonce") and g["id"]:
                for w in duplex_model_check(cl, fr, g["id"], g["ctx"], g["name"], short=bool(g.get("short"))):
                    rep["violations"].append(dict(what=w))
                rep["duplex_instances"] = rep.get("duplex_instances", 0) + sum(1 for o in obs if o["topic"] == g["name"] + ".start")
            if g["kind"] == "duplexonce":
                nm = g["name"]
                want = []
                for m in g["sends"]:
                    want += [dict(topic=nm + ".start", ctx=g["ctx"], content=None), dict(topic=nm + ".recv", ctx=g["ctx"], content=("hi: " + m).encode()),
                             dict(topic=nm + ".stop", ctx=g["ctx"], content=None)]
                if len(g["sends"]) < 2:
                    rep["violations"].append(dict(what=f"duplex generator `{nm}` (one input per instance): the instance did not stop and start again "
                                                       f"after consuming its input; observed {[(o['topic'], o['content']) for o in obs]}"))
                elif obs[: len(want)] != want or any(o["topic"] == nm + ".recv" for o in obs[len(want):]):
                    rep["violations"].append(dict(
                        what=f"duplex generator `{nm}` (one input per instance): sends {g['sends']}, one per instance; observed "
                             f"{[(o['topic'], o['content']) for o in obs][:10]} - each instance must be fed only the sends appended while it runs, once"))
                continue
            if g["kind"] == "plain" and not g["id"]:
                rep["violations"].append(dict(what=f"POST /{g['name']}.spawn was not accepted"))
                continue
            if g["kind"] == "plain":
                runs = [g["outs"]] * (6 + len(obs))
                line = f"GEN spawn={H.hex32(g['id'])} ctx={H.hex32(g['ctx'])} name={xh(g['name'])}" + "".join(
                    " RUN" + "".join(f" o={xh(o)}" for o in run) for run in runs)
                exp = [dict(topic=e["topic"], ctx=e["ctx"], content=e["content"]) for e in model_service([line])[0]]
                per = len(g["outs"]) + 2
                n_complete = len(obs) // per
                rep["lifecycles"] += n_complete
                if obs != exp[: len(obs)]:
                    kx = next((j for j, (a, b) in enumerate(zip(exp, obs)) if a != b), min(len(exp), len(obs)))
                    rep["violations"].append(dict(
                        what=f"generator `{g['name']}` ({g['outs']}): observed frames deviate from start, recv..., stop, start, ... at #{kx}: "
                             f"impl {str(obs[kx])[:200] if kx < len(obs) else 'nothing'} vs model {str(exp[kx])[:200] if kx < len(exp) else 'nothing'}; observed topics {[o['topic'] for o in obs][:14]}"))
                elif n_complete < 3:
                    rep["violations"].append(dict(
                        what=f"generator `{g['name']}` ({g['outs']}) was not started again after each stop (three lifecycles) within {max_wait_s}s: only "
                             f"{[o['topic'] for o in obs]}"))
            else:
                want = [dict(topic=g["name"] + ".start", ctx=g["ctx"], content=None)] + \
                       [dict(topic=g["name"] + ".recv", ctx=g["ctx"], content=("hi: " + m).encode()) for m in g["sends"]]
                if g.get("short"):
                    fed = b"".join((o["content"] or b"")[4:] for o in obs[1:])
                    ok = (obs[:1] == want[:1] and all(o["topic"] == g["name"] + ".recv" and o["ctx"] == g["ctx"] and (o["content"] or b"").startswith(b"hi: ")
                                                      for o in obs[1:]) and fed == "".join(g["sends"]).encode())
                    if not ok:
                        rep["violations"].append(dict(
                            what=f"duplex generator `{g['name']}`: sent {g['sends']} (short sends), the pipeline was fed "
                                 f"{[(o['topic'], o['content']) for o in obs]} - not the sends once each, in order"))
                elif obs != want:
                    rep["violations"].append(dict(
                        what=f"duplex generator `{g['name']}`: sent {g['sends']}, observed {[(o['topic'], o['content']) for o in obs]}"))
        # restart on the same store: a refused spawn stays refused ONCE (its .spawn.error is part of the history), accepted
        # generators run again
        if rep["violations"]:
            return rep
        pre_ids = {f["id"] for f in fr}
        path = cl.path
        cl.kill()
        cl2 = Client("api,generators", path=path)
        cl = None
        try:
            t_end = time.time() + 6
            while time.time() < t_end:
                fr2 = cl2.frames()
                if all(any(f["topic"] == g["name"] + ".start" and f["id"] not in pre_ids and f["ctx"] == g["ctx"] for f in fr2)
                       for g in gens if g["kind"] == "plain" and g["id"]):
                    break
                time.sleep(0.1)
            cl2.settle(0.3, 4)
            fr2 = cl2.frames()
            for g in gens:
                if not g["id"]:
                    continue
                sid = H.id_to_s(g["id"])
                if g["kind"] == "refused":
                    errs = [f for f in fr2 if f["topic"] == g["name"] + ".spawn.error" and f["meta"] and f["meta"].get("source_id") == sid]
                    if len(errs) != 1:
                        rep["violations"].append(dict(what=f"after a restart the refused spawn of `{g['name']}` is named by {len(errs)} "
                                                           f"{g['name']}.spawn.error frames (exactly one expected, from before the restart)"))
                elif g["kind"] == "plain":
                    new_starts = [f for f in fr2 if f["topic"] == g["name"] + ".start" and f["id"] not in pre_ids and f["meta"] and f["meta"].get("source_id") == sid]
                    if not new_starts:
                        rep["violations"].append(dict(what=f"after a restart generator `{g['name']}` (spawn {sid[-6:]}) was not started again"))
            rep["restarted"] = 1
        finally:
            cl2.close()
        return rep
    finally:
        if cl is not None:
            cl.close()


# ---- content store scenarios (C10) -----------------------------------------------------------------
def run_cas_scenario(seed):
    """byte strings through every HTTP entry point, a racing follower, nu entry points, and a restart"""
    import hashlib, base64, socket
    r = random.Random(seed)
    cl = Client("api,handlers,commands,generators")
    rep = dict(seed=seed, violations=[], writes=0, reads=0, raced=0, sizes=[])
    try:
        bodies = [b"", b"\x00", b"a", bytes([255, 254, 0, 1, 128]), b"z" * 8191, b"y" * 8192, b"x" * 8193,
                  bytes(r.randrange(256) for _ in range(100 * 1024)), "héllo".encode()]
        r.shuffle(bodies)
        integ = lambda b: "sha256-" + base64.b64encode(hashlib.sha256(b).digest()).decode()
        # a follower racing every append: as soon as a frame with a hash is delivered its content must be there
        s = socket.socket(socket.AF_UNIX, socket.SOCK_STREAM)
        s.settimeout(0.05)
        s.connect(cl.sock)
        s.sendall(H.render("GET", "/?follow=true&tail=true", {"Connection": "keep-alive"}))
        buf = b""
        def pump():
            nonlocal buf
            try:
                while True:
                    ch = s.recv(1 << 16)
                    if not ch:
                        break
                    buf += ch
            except (socket.timeout, BlockingIOError):
                pass
            lines = buf.split(b"\n")
            buf = lines[-1]
            for l in lines[:-1]:
                l = l.strip()
                if l.startswith(b"{") and b'"hash"' in l:
                    try:
                        f = json.loads(l)
                    except Exception:
                        continue
                    if f.get("hash"):
                        rep["raced"] += 1
                        got = cl.cas(f["hash"])
                        if got is None:
                            rep["violations"].append(dict(what=f"a follower was sent frame {f['id']} (topic {f['topic']}) carrying hash "
                                                               f"{f['hash']} but the content is not retrievable"))
        time.sleep(0.2)
        seen = {}
        for b in bodies:
            rep["sizes"].append(len(b))
            # POST /cas
            st, hd, out = cl.request(H.render("POST", "/cas", body=b))
            if b:
                rep["writes"] += 1
                if st != 200 or out.decode() != integ(b):
                    rep["violations"].append(dict(what=f"POST /cas of {len(b)} bytes answered {st} {out[:80]!r}, expected the hash {integ(b)}"))
            elif st != 400:
                rep["violations"].append(dict(what=f"POST /cas with an empty body answered {st}"))
            # POST /{topic}
            st, hd, out = cl.request(H.render("POST", "/blob", body=b))
            rep["writes"] += 1
            if st != 200:
                rep["violations"].append(dict(what=f"POST /blob of {len(b)} bytes answered {st}"))
                continue
            f = json.loads(out)
            if not b:
                if f.get("hash") is not None:
                    rep["violations"].append(dict(what=f"an append without a body produced a frame with hash {f.get('hash')}"))
            else:
                if f.get("hash") != integ(b):
                    rep["violations"].append(dict(what=f"append of {len(b)} bytes reported hash {f.get('hash')}, the bytes hash to {integ(b)}"))
                got = cl.cas(f["hash"]); rep["reads"] += 1
                if got != b:
                    rep["violations"].append(dict(what=f"content of {len(b)} bytes is not returned byte for byte by its hash "
                                                       f"(got {None if got is None else len(got)} bytes)"))
                seen[f["hash"]] = b
            pump()
        # the same through Transfer-Encoding: chunked (what the xs client always sends): any chunking of the body, and the
        # empty body as a lone terminating chunk - still "no body", hence no hash
        for b in bodies:
            cuts = sorted({r.randrange(0, len(b) + 1) for _ in range(r.choice([0, 1, 3]))}) if b else []
            chunks = [b[i:j] for i, j in zip([0] + cuts, cuts + [len(b)])]
            st, hd, out = cl.request(H.render_chunked("POST", "/blobc", chunks))
            rep["writes"] += 1
            if st != 200:
                rep["violations"].append(dict(what=f"chunked POST /blobc of {len(b)} bytes in {len(chunks)} chunks answered {st}"))
                continue
            f = json.loads(out)
            if not b:
                if f.get("hash") is not None:
                    rep["violations"].append(dict(what=f"a chunked append with an empty body (lone terminating chunk) produced a frame with hash {f.get('hash')}"))
            else:
                got = cl.cas(f["hash"]) if f.get("hash") else None; rep["reads"] += 1
                if f.get("hash") != integ(b) or got != b:
                    rep["violations"].append(dict(what=f"chunked append of {len(b)} bytes in chunks {[len(c) for c in chunks]} reported hash {f.get('hash')}, "
                                                       f"the bytes hash to {integ(b)}; read back {None if got is None else len(got)} bytes"))
            st, hd, out = cl.request(H.render_chunked("POST", "/cas", chunks))
            if b and (st != 200 or out.decode() != integ(b)):
                rep["violations"].append(dict(what=f"chunked POST /cas of {len(b)} bytes answered {st} {out[:80]!r}, expected {integ(b)}"))
            if not b and st != 400:
                rep["violations"].append(dict(what=f"chunked POST /cas with an empty body answered {st}"))
        pump()
        # nu entry points: a handler's buffered .append + return value, a command's output
        hid = cl.append("h.register", body=('{ run: {|frame| if $frame.topic != "go" { return }; "from-append" | .append note; "ret-val" } }').encode())
        cl.wait_topic("h.registered", after=hid or 0)
        cl.append("c.define", body=b'{ run: {|frame| ["cmd-out"] } }')
        cl.settle(0.2, 3)
        cl.append("go"); cl.append("c.call"); cl.append("g.spawn", body=b'"gen-out"')
        cl.settle(0.4, 8)
        pump()
        expect = {"note": b"from-append", "h.out": b'"ret-val"', "c.recv": b'"cmd-out"', "g.recv": b"gen-out"}
        for f in cl.frames():
            if f["topic"] in expect and f["hash"]:
                want = expect[f["topic"]]
                got = cl.cas(f["hash"]); rep["reads"] += 1
                if f["hash"] != integ(want) or got != want:
                    rep["violations"].append(dict(what=f"{f['topic']}: content {want!r} stored under {f['hash']} (expected {integ(want)}), read back {got!r}"))
                seen[f["hash"]] = want
        # nu `.append` fed by a multi-chunk ByteStream (what an external command's pipe, `http get` or a duplex generator's
        # input hand over): the stored content is the concatenation of all chunks
        pat = lambda k, n: bytes((((i * 31 + k * 7 + 1) & 0xff) | (0x80 if i % 7 == 0 else 0)) for i in range(n))
        for sizes in ([3000, 5000, 1, 4000], [10, 30000], [20000], [8192, 1], [1, 1, 1], [r.randrange(1, 9000) for _ in range(r.choice([2, 3, 5]))]):
            want = b"".join(pat(k, n) for k, n in enumerate(sizes))
            out = cl.cmd("nueval " + xh(".append chunked") + " " + ",".join(map(str, sizes)))
            rep["writes"] += 1; rep["sizes"].append(len(want))
            try:
                fj = json.loads(out[len("NU ok "):]) if out.startswith("NU ok ") else None
            except Exception:
                fj = None
            if not fj or not fj.get("hash"):
                rep["violations"].append(dict(what=f"nu .append of a ByteStream in chunks {sizes} failed: {out[:200]}"))
                continue
            got = cl.cas(fj["hash"]); rep["reads"] += 1
            if fj["hash"] != integ(want) or got != want:
                rep["violations"].append(dict(
                    what=f"nu .append of a ByteStream in chunks {sizes} ({len(want)} bytes) stored {None if got is None else len(got)} bytes "
                         f"under {fj['hash']}; the bytes hash to {integ(want)}"))
            seen[fj["hash"]] = want
        # content is shared by hash: a retention policy that evicts ONE frame must not take the content away from another
        # frame (other topic, other context) that carries the same bytes
        shared = b"shared-" + bytes(r.randrange(256) for _ in range(64))
        c_other = cl.append("xs.context")
        for path in ("/dedupA?ttl=head:1", "/dedupB", "/dedupA?ttl=time:1"):
            cl.request(H.render("POST", path, body=shared))
        if c_other:
            cl.request(H.render("POST", "/dedupA?context=" + H.id_to_s(c_other), body=shared))
        for k in range(2):
            cl.request(H.render("POST", "/dedupA?ttl=head:1", body=b"newer-%d" % k))
        # ... nor may an explicit removal of ONE frame (DELETE /<id>, nu .remove) take the bytes away from the others
        st_c, _, out_c = cl.request(H.render("POST", "/dedupC", body=shared))
        if st_c == 200:
            cl.request(H.render("DELETE", "/" + json.loads(out_c)["id"]))
        dj = cl.cmd("nueval " + xh('"%s" | .append dedupD | get id' % "nu-shared"))
        cl.cmd("nueval " + xh('"nu-shared" | .append dedupE | get id'))
        if dj.startswith("NU ok "):
            try:
                cl.request(H.render("DELETE", "/" + json.loads(dj[6:])))
                seen[integ(b"nu-shared")] = b"nu-shared"
            except Exception:
                pass
        time.sleep(0.05)
        cl.request(H.render("GET", "/"))          # a read: hands expired time:N frames to the collector
        cl.gc()
        seen[integ(shared)] = shared
        for f in cl.frames():
            if f["hash"]:
                rep["reads"] += 1
                if cl.cas(f["hash"]) is None:
                    rep["violations"].append(dict(what=f"frame {f['topic']} (context {'zero' if f['ctx'] == 0 else 'non-zero'}) carries hash {f['hash']} but its content "
                                                       f"is gone after ANOTHER frame with the same bytes was evicted, expired or removed"))
                    break
        pump()
        s.close()
        # across a restart: same hash, same bytes
        path = cl.path
        cl.kill()
        cl2 = Client("api", path=path)
        try:
            for h, b in seen.items():
                got = cl2.cas(h); rep["reads"] += 1
                if got != b:
                    rep["violations"].append(dict(what=f"after a restart the content under {h} is {None if got is None else len(got)} bytes, expected {len(b)}"))
            for f in cl2.frames():
                if f["hash"] and cl2.cas(f["hash"]) is None:
                    rep["violations"].append(dict(what=f"after a process kill frame {f['topic']} carries hash {f['hash']} whose content is missing"))
            # same bytes again -> same hash
            for b in bodies[:3]:
                if b:
                    st, hd, out = cl2.request(H.render("POST", "/cas", body=b))
                    if out.decode() != integ(b):
                        rep["violations"].append(dict(what="the same bytes hash differently after a restart"))
        finally:
            cl2.close()
        cl = None
        return rep
    finally:
        if cl is not None:
            cl.close()


def nu_scope_probe():
    """C06: .cat / .head inside a script running for context B see only B unless the script names
    another context explicitly; the handler's output lands in B. -> dict(...)"""
    cl = Client("api,handlers")
    try:
        a = cl.append("xs.context")
        b = cl.append("xs.context")
        for c in (0, a, b):
            cl.append("t", ctx=c, body=b"x")
            cl.append("u", ctx=c, body=b"y")
        script = ('{ run: {|frame| if $frame.topic != "go" { return }\n'
                  '  let cats = (.cat | get context_id | uniq | str join ",")\n'
                  '  let h = (.head t | get context_id)\n'
                  f'  let hx = (.head t --context "{H.id_to_s(a)}" | get context_id)\n'
                  '  $"($cats)|($h)|($hx)" } }')
        hid = cl.append("p.register", ctx=b, body=script.encode())
        if cl.wait_topic("p.registered", ctx=b, after=hid or 0) is None:
            return dict(error="probe handler did not register")
        cl.append("go", ctx=a)        # must not trigger the handler of B
        g = cl.append("go", ctx=b)
        cl.settle(0.4, 10)
        outs = [f for f in cl.frames() if f["topic"] == "p.out"]
        res = dict(n_out=len(outs), b=H.id_to_s(b), a=H.id_to_s(a), out_ctx=[H.id_to_s(f["ctx"]) for f in outs],
                   triggers=[f["meta"].get("frame_id") for f in outs], content=None, go_b=H.id_to_s(g))
        if outs:
            res["content"] = json.loads(cl.cas(outs[0]["hash"]))
        return res
    finally:
        cl.close()


def nu_deep_meta_probe(depths=(3, 126, 127, 140)):
    """C12: a Nushell script builds a meta record nested d levels and appends it (the only entry point that can build
    a meta deeper than the JSON parser reads): the append is either refused or the frame reads back, and the stream
    stays readable -> dict(violations, probes)"""
    cl = Client("api")
    out = dict(violations=[], probes=0)
    try:
        for d in depths:
            sc = f'let x = (1..{d} | reduce --fold null {{|i, acc| {{a: $acc}}}}); "c" | .append deep{d} --meta $x | get id'
            res = cl.cmd("nueval " + xh(sc))
            out["probes"] += 1
            dump = cl.cmd("dump") if cl.alive() else ""
            st, hd, body = cl.request(H.render("GET", "/")) if cl.alive() else (None, {}, b"")
            ok_read = dump.startswith("DUMP") and st == 200
            accepted = res.startswith("NU ok")
            if not ok_read:
                out["violations"].append(dict(what=f"a Nushell script appended a frame with meta nested {d} levels ({res[:60]}); afterwards "
                                                   f"reading the stream fails (dump: {dump[:40]!r}, GET / -> {st})"))
                break
            if accepted and f"deep{d}".encode() not in body:
                out["violations"].append(dict(what=f"meta nested {d}: the append was acknowledged but the frame is not in the stream"))
            if not accepted and f"deep{d}".encode() in body:
                out["violations"].append(dict(what=f"meta nested {d}: the append was refused ({res[:80]}) but the frame is in the stream"))
            if d <= 126 and not accepted:
                out["violations"].append(dict(what=f"meta nested {d} (readable by the JSON parser) was refused: {res[:120]}"))
        return out
    finally:
        cl.close()


def head_follow_probe(seed):
    """GET /head/<topic>?follow=true is `head` kept up to date: the current head of (context, topic), then every later frame
    of that topic IN THAT CONTEXT - the zero context when no `context` is given - and nothing else"""
    r = random.Random(seed)
    cl = Client("api")
    out = dict(violations=[], probes=0)
    try:
        b = cl.append("xs.context")
        c2 = cl.append("xs.context")
        topic = r.choice(["t", "news", "a.b"])
        with_head = r.random() < 0.6
        if with_head:
            cl.append(topic, body=b"old-zero"); cl.append(topic, ctx=b, body=b"old-b")
        fz = Follower(cl, f"/head/{topic}?follow=true")
        fb = Follower(cl, f"/head/{topic}?follow=true&context={H.id_to_s(b)}")
        time.sleep(0.4)
        plan = []
        for k in range(r.choice([4, 7])):
            c = r.choice([0, 0, b, b, c2])
            t = topic if r.random() < 0.75 else topic + "x"
            i = cl.append(t, ctx=c, body=b"n%d" % k)
            plan.append((i, c, t))
        time.sleep(0.8)
        gz, gb = fz.frames(), fb.frames()
        allf = {f["id"]: f for f in cl.frames()}
        for name, got, scope in (("no context parameter (zero context)", gz, 0), (f"context=B", gb, b)):
            out["probes"] += 1
            want = [i for (i, c, t) in plan if c == scope and t == topic]
            heads = [f["id"] for f in allf.values() if f["ctx"] == scope and f["topic"] == topic and f["id"] not in want]
            want = (heads[-1:] if with_head else []) + want
            ids = [f["id"] for f in got]
            if ids != want:
                foreign = [f for f in got if f["ctx"] != scope]
                out["violations"].append(dict(what=f"GET /head/{topic}?follow=true with {name} streamed {len(ids)} frames, expected {len(want)} "
                                                   f"(the head of that context, then its later `{topic}` frames)"
                                                   + (f"; {len(foreign)} of them belong to another context" if foreign else "")
                                                   + f": got contexts/topics {[(('zero' if f['ctx'] == 0 else 'B' if f['ctx'] == b else 'C'), f['topic']) for f in got][:8]}"))
        return out
    finally:
        cl.close()


def definition_ttl_probe(seed):
    """C12 at the definition boundary: `return_options.ttl` of a handler / command definition goes through the same TTL
    grammar. A malformed one makes the definition invalid (<h>.unregistered / <c>.error, never <h>.registered / <c>.defined,
    and nothing the script returns is ever stored); a well-formed one is applied to the outputs exactly."""
    r = random.Random(seed)
    bad = ['"head:0"', '"time:-5"', '"head:4294967296"', '"sometimes"', '5', '"time:5s"', '"head:"', '""', '"Forever"', '"time:1.5"']
    good = [('"head:2"', "head:2"), ('"time:60000"', "time:ea60"), ('"forever"', "forever"), ('"head:+3"', "head:3")]   # dump prints hex
    pool = [(t, None) for t in r.sample(bad, 5)] + r.sample(good, 2)
    r.shuffle(pool)
    cl = Client("api,handlers,commands")
    out = dict(violations=[], probes=0)
    try:
        for k, (lit, want) in enumerate(pool):
            for kind in ("handler", "command"):
                n = f"{'h' if kind == 'handler' else 'c'}{k}"
                out["probes"] += 1
                if kind == "handler":
                    body = '{ resume_from: "tail", return_options: {ttl: %s}, run: {|frame| if $frame.topic != "go%d" { return }; "v" } }' % (lit, k)
                    i = cl.append(n + ".register", body=body.encode())
                    ok_t, bad_t = n + ".registered", n + ".unregistered"
                else:
                    body = '{ return_options: {ttl: %s}, run: {|frame| "v" } }' % lit
                    i = cl.append(n + ".define", body=body.encode())
                    ok_t, bad_t = n + ".defined", n + ".error"
                t0 = time.time()
                seen = None
                # a command definition that is accepted is not announced: silence for 0.8 s stands for "defined"
                while time.time() - t0 < (8 if (kind == "handler" or want is None) else 0.8) and seen is None:
                    for f in cl.frames():
                        if f["id"] > (i or 0) and f["topic"] in (ok_t, bad_t):
                            seen = f["topic"]
                            break
                    time.sleep(0.03)
                if kind == "command" and seen is None and want is not None:
                    seen = ok_t
                if want is None and seen != bad_t:
                    out["violations"].append(dict(what=f"{kind} definition with return_options.ttl = {lit} (outside the TTL grammar) was not "
                                                       f"refused: expected `{bad_t}`, saw `{seen}`"))
                    continue
                if want is not None and seen != ok_t:
                    out["violations"].append(dict(what=f"{kind} definition with return_options.ttl = {lit} (well-formed) was not accepted: saw `{seen}`"))
                    continue
                # trigger it: a refused definition stores nothing; an accepted one stores its output with exactly that TTL
                j = cl.append(f"go{k}") if kind == "handler" else cl.append(n + ".call")
                cl.settle(0.4, 6)
                outs = [f for f in cl.frames() if f["id"] > (j or 0) and f["topic"] in (n + ".out", n + ".response", n + ".recv")]
                if want is None and outs:
                    out["violations"].append(dict(what=f"{kind} `{n}` defined with the malformed ttl {lit} stored output "
                                                       f"`{outs[0]['topic']}` with ttl `{outs[0]['ttl']}`"))
                if want is not None and (not outs or any(f["ttl"] != want for f in outs)):
                    out["violations"].append(dict(what=f"{kind} `{n}` defined with ttl {lit}: outputs {[(f['topic'], f['ttl']) for f in outs]}, expected ttl `{want}`"))
        return out
    finally:
        cl.close()


def wire_boundary_probe(seed):
    """C12 at the HTTP boundary: malformed TTLs / read options / ids are answered 4xx and never stored; well-formed ones
    are stored with exactly the TTL the grammar assigns (checked against the extracted parse_ttl by the caller)"""
    import urllib.parse
    r = random.Random(seed)
    cl = Client("api")
    out = dict(violations=[], probes=0, accepted=[], rejected=0)
    try:
        bad = ["head:0", "head:-1", "head:4294967296", "head:x", "head:", "time:-5", "time:18446744073709551616", "time:1.5", "time:",
               "never", "", "Forever", "forever ", "ephemeral:1", "head:1:2", "time:1e3", "head:+1 "]
        good = ["forever", "ephemeral", "time:0", "time:1500", "time:18446744073709551615", "head:1", "head:4294967295", "head:+7", "time:+3"]
        pool = [(t, False) for t in bad] + [(t, True) for t in good]
        r.shuffle(pool)
        for t, ok in pool:
            before = cl.dump() or []
            st, hd, body = cl.request(H.render("POST", "/wire?ttl=" + urllib.parse.quote(t, safe=""), body=b"x"))
            after = cl.dump() or []
            out["probes"] += 1
            if st == 200:
                try:
                    out["accepted"].append((t, json.loads(body).get("ttl")))
                except Exception:
                    out["accepted"].append((t, "?"))
            else:
                out["rejected"] += 1
            # (frames stored earlier may expire or be trimmed meanwhile: only NEW frames count)
            new = [f for f in after if f.split(",")[0] not in {b.split(",")[0] for b in before}]
            if not ok and (st is None or not (400 <= st < 500) or new):
                out["violations"].append(dict(what=f"POST /wire?ttl={t!r} (malformed TTL) answered {st} and {len(new)} new frame(s) were stored; "
                                                   f"expected a 4xx and nothing stored"))
            if ok and st != 200:
                out["violations"].append(dict(what=f"POST /wire?ttl={t!r} (well-formed TTL) answered {st}"))
        for q in ["limit=-1", "limit=x", "limit=18446744073709551616", "last-id=zz", "context-id=1", "follow=maybe", "tail=true&tail=false",
                  "last-id=" + "z" * 25, "follow=-5"]:
            st, hd, body = cl.request(H.render("GET", "/?" + q))
            out["probes"] += 1
            if st is None or not (400 <= st < 500):
                out["violations"].append(dict(what=f"GET /?{q} (malformed read option) answered {st}; expected a 4xx"))
        return out
    finally:
        cl.close()


def handler_lag_probe(n_per_writer=450, busy_ms=3000):
    """C14: a handler is busy with one frame while three writers append more frames than the live stream buffers for a
    slow subscriber (100 + 1024): afterwards it must still be invoked exactly once, in order, for every frame of its
    context - or have announced that it stopped"""
    import threading
    cl = Client("api,handlers")
    try:
        # (with a heartbeat: synthetic xs.pulse frames queue up behind the real ones while the handler is busy)
        script = ('{ resume_from: "tail", pulse: 400, run: {|frame| if $frame.topic == "slow" { sleep %dms }; '
                  'if $frame.topic != "trig" { return }; $frame.id } }' % busy_ms)
        # the handler lives in a context of its own; the burst goes to that context AND to the zero context (whose `trig`
        # frames must never reach it - not even after it had to subscribe again)
        b = cl.append("xs.context") or 0
        hid = cl.append("h.register", ctx=b, body=script.encode())
        if cl.wait_topic("h.registered", ctx=b, after=hid or 0) is None:
            return dict(error="the probe handler was never announced as registered")
        cl.append("slow", ctx=b)
        trigs, foreign, lock = [], [], threading.Lock()
        def w(k):
            for i in range(n_per_writer):
                t = "trig" if i % 10 == k else "other"
                x = cl.append(t, ctx=b, body=b"x")
                if t == "trig" and x:
                    with lock:
                        trigs.append(x)
                if i % 25 == k:
                    y = cl.append("trig", ctx=0, body=b"foreign")
                    if y:
                        with lock:
                            foreign.append(y)
        ths = [threading.Thread(target=w, args=(k,)) for k in range(3)]
        for t in ths:
            t.start()
        for t in ths:
            t.join()
        time.sleep(busy_ms / 1000 + 0.5)
        foreign.append(cl.append("trig", ctx=0, body=b"foreign-after"))
        last = cl.append("trig", ctx=b, body=b"after")
        trigs.append(last)
        cl.settle(0.8, 40)
        fr = cl.frames()
        outs = [H.s_to_id(f["meta"]["frame_id"]) for f in fr if f["topic"] == "h.out" and f["meta"] and f["meta"].get("handler_id") == H.id_to_s(hid)]
        unreg = [f for f in fr if f["topic"] == "h.unregistered"]
        return dict(appended=3 * n_per_writer + 2, triggers=len(trigs), outs=len(outs), in_order=outs == sorted(outs), dups=len(outs) - len(set(outs)),
                    missing=len(set(trigs) - set(outs)), last_served=last in outs, unregistered=len(unreg),
                    foreign_served=len(set(foreign) & set(outs)), foreign_appended=len(foreign))
    finally:
        cl.close()


def http_write_atomicity_probe():
    """C04 through the HTTP routes: each mutating request is ONE journal commit. The server runs under the crash shim in
    counting mode; the tracked system calls of an import that OVERWRITES a stored id (other topic) are compared with those
    of an import of a fresh id, of an append and of a remove -> dict(calls per request kind)"""
    import tempfile, shutil
    from . import crashengine as K
    K.build_shim()
    os.makedirs(os.path.join(build.BUILD, "work"), exist_ok=True)
    wd = tempfile.mkdtemp(prefix="atom", dir=os.path.join(build.BUILD, "work"))
    path = os.path.join(wd, "s")
    cf = os.path.join(wd, "count.txt")
    cl = Client("api", path=path, env=dict(LD_PRELOAD=K.SHIM, XSV_TRACK=path, XSV_COUNT_FILE=cf))
    cl.wd = wd
    def calls():
        try:
            return [l.split() for l in open(cf).read().splitlines() if l.strip()]
        except Exception:
            return []
    def journal_ops(before, after):
        # commits = writes to the journal, syncs = fsync/fdatasync: only calls on fjall's files (not the CAS)
        new = after[len(before):]
        w = sum(1 for t in new if len(t) > 1 and t[1].startswith(("write", "pwrite")) and "cacache" not in " ".join(t))
        f = sum(1 for t in new if len(t) > 1 and t[1].startswith(("fsync", "fdatasync")) and "cacache" not in " ".join(t))
        return (w, f)
    out = {}
    try:
        time.sleep(0.2)
        a = cl.append("a")                     # no body: no CAS traffic
        def imp(i, topic):
            fj = dict(topic=topic, context_id=H.id_to_s(0), id=H.id_to_s(i), hash=None, meta=None, ttl=None)
            return cl.request(H.render("POST", "/import", body=json.dumps(fj).encode()))[0]
        c0 = calls(); st1 = imp(12345, "fresh"); c1 = calls()
        st2 = imp(a, "b"); c2 = calls()            # overwrites the stored id `a` under another topic
        b = cl.append("c"); c3 = calls()
        cl.request(H.render("DELETE", "/" + H.id_to_s(b))); c4 = calls()
        out = dict(import_fresh=journal_ops(c0, c1), import_overwrite=journal_ops(c1, c2), append=journal_ops(c2, c3),
                   remove=journal_ops(c3, c4), statuses=[st1, st2], tracked_total=len(c4))
        return out
    finally:
        cl.close()


def double_register_probe(trials=4):
    """C16: the same name registered twice in quick succession (tail mode): the second `.register` is already in the
    stream when the first instance starts to listen. Afterwards exactly ONE instance answers, and the other one has been
    announced as unregistered -> dict(trials, bad=[...])"""
    out = dict(trials=0, bad=[])
    for k in range(trials):
        cl = Client("api,handlers")
        try:
            # the first script carries a module that takes a while to load: the second registration is appended while the
            # first instance is still being set up
            big = "\\n".join(f"export def f{i} [] {{ {i} }}" for i in range(1500 if k % 2 == 0 else 0))
            s1 = '{ modules: { big: "%s" }, resume_from: "tail", run: {|frame| if $frame.topic != "trig" { return }; "one" } }' % big
            s2 = '{ resume_from: "tail", run: {|frame| if $frame.topic != "trig" { return }; "two" } }'
            ctx = 0 if k < 2 else (cl.append("xs.context") or 0)
            a = cl.append("h.register", ctx=ctx, body=s1.encode())
            b = cl.append("h.register", ctx=ctx, body=s2.encode())
            cl.settle(0.6, 15)
            cl.append("trig", ctx=ctx)
            cl.settle(0.5, 10)
            fr = cl.frames()
            outs = [cl.cas(f["hash"]) for f in fr if f["topic"] == "h.out"]
            unreg = [f["meta"].get("handler_id") for f in fr if f["topic"] == "h.unregistered" and f["meta"]]
            out["trials"] += 1
            if outs != [b'"two"'] or unreg != [H.id_to_s(a)]:
                out["bad"].append(dict(trial=k, answers=[o.decode() if o else None for o in outs], unregistered=[u[-6:] for u in unreg],
                                       first=H.id_to_s(a)[-6:], second=H.id_to_s(b)[-6:]))
        finally:
            cl.close()
    return out
