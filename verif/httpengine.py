"""Engine H: raw HTTP/1.1 over the unix socket against the real api::serve (in-process in
`xsv serve`), compared request by request with the extracted front-end model (Model/Http.v)."""
import base64, hashlib, json, os, random, shutil, socket, subprocess, tempfile, time

from . import build
from .seqengine import xh, unxh, integrity

B36 = "0123456789abcdefghijklmnopqrstuvwxyz"


def id_to_s(x: int) -> str:
    s = ""
    for _ in range(25):
        s = B36[x % 36] + s
        x //= 36
    return s


def s_to_id(s: str) -> int:
    x = 0
    for c in s.lower():
        x = x * 36 + B36.index(c)
    return x


def hex32(x: int) -> str:
    return "%032x" % x


class Server:
    def __init__(self, services="api", env=None):
        os.makedirs(os.path.join(build.BUILD, "work"), exist_ok=True)
        self.wd = tempfile.mkdtemp(prefix="h", dir=os.path.join(build.BUILD, "work"))
        self.path = os.path.join(self.wd, "s")
        # stderr goes to a file: an undrained pipe would block a server that logs, and the tail is evidence when a request is dropped
        self.errpath = os.path.join(self.wd, "stderr.log")
        self.p = subprocess.Popen([build.XSV, "serve", self.path, services], stdin=subprocess.PIPE,
                                  stdout=subprocess.PIPE, stderr=open(self.errpath, "wb"), text=True, bufsize=1,
                                  env=dict(os.environ, **(env or {})))
        line = self.p.stdout.readline()
        if "READY" not in line:
            raise RuntimeError("server did not start: " + line + self.stderr_tail())
        self.sock = os.path.join(self.path, "sock")

    def stderr_tail(self, n=600):
        try:
            return open(self.errpath, "rb").read()[-n:].decode(errors="replace")
        except OSError:
            return ""

    def cmd(self, c):
        self.p.stdin.write(c + "\n")
        self.p.stdin.flush()
        return self.p.stdout.readline().rstrip("\n")

    def dump(self):
        l = self.cmd("dump")
        return l.split(" ")[2:] if l.startswith("DUMP") else None

    def gc(self):
        return self.cmd("gc")

    def alive(self):
        return self.p.poll() is None

    def close(self):
        try:
            self.p.stdin.write("quit\n"); self.p.stdin.flush()
            self.p.wait(timeout=5)
        except Exception:
            self.p.kill()
        shutil.rmtree(self.wd, ignore_errors=True)

    def request(self, raw: bytes, timeout=10.0, read_for=None, patience=None):
        """send raw bytes on a new connection; -> (status or None if no response, headers, body).
        "No response" means the server closed the connection without one, or stayed silent for `patience` seconds: a sandbox
        I/O stall (an fsync that takes 10 s+ while gigabytes of scratch files are being deleted) is not a dropped connection,
        so a plain request with nothing received yet is given 90 s before it is called unanswered"""
        if patience is None:
            patience = 90.0 if (read_for is None and timeout >= 10.0) else timeout
        s = socket.socket(socket.AF_UNIX, socket.SOCK_STREAM)
        s.settimeout(timeout)
        data = b""
        self.last_hung = False
        try:
            # a refused / not-yet-possible connect is retried for a few seconds: only a listener that stays away is a finding
            t_c = time.time()
            while True:
                try:
                    s.connect(self.sock)
                    break
                except (ConnectionRefusedError, FileNotFoundError, BlockingIOError) as e:
                    self.last_connect_error = repr(e)
                    if time.time() - t_c > 5.0:
                        raise
                    time.sleep(0.05)
                    s.close()
                    s = socket.socket(socket.AF_UNIX, socket.SOCK_STREAM)
                    s.settimeout(timeout)
            try:
                s.sendall(raw)
            except (BrokenPipeError, ConnectionResetError):
                pass    # the server answered (e.g. 400) and closed before reading the whole body: its response is still readable
            t0 = time.time()
            while True:
                try:
                    chunk = s.recv(65536)
                except socket.timeout:
                    if not data and time.time() - t0 < patience:
                        continue
                    self.last_hung = not data
                    break
                if not chunk:
                    break
                data += chunk
                if read_for is not None and time.time() - t0 > read_for:
                    break
        except (ConnectionError, OSError):
            pass
        finally:
            s.close()
        return parse_response(data)


def parse_response(data: bytes):
    if not data.startswith(b"HTTP/1."):
        return None, {}, data
    head, _, body = data.partition(b"\r\n\r\n")
    lines = head.split(b"\r\n")
    try:
        status = int(lines[0].split(b" ")[1])
    except Exception:
        return None, {}, data
    headers = {}
    for l in lines[1:]:
        k, _, v = l.partition(b":")
        headers[k.strip().lower().decode()] = v.strip().decode(errors="replace")
    if headers.get("transfer-encoding", "").lower() == "chunked":
        out, rest = b"", body
        while rest:
            ln, _, rest = rest.partition(b"\r\n")
            try:
                n = int(ln.split(b";")[0], 16)
            except ValueError:
                break
            if n == 0:
                break
            out += rest[:n]
            rest = rest[n + 2:]
        body = out
    return status, headers, body


def render(method, target, headers=None, body=b""):
    h = {"Host": "localhost", "Connection": "close"}
    if headers:
        h.update(headers)
    if body or method in ("POST", "PUT"):
        h["Content-Length"] = str(len(body))
    head = f"{method} {target} HTTP/1.1\r\n".encode()
    for k, v in h.items():
        head += k.encode() + b": " + (v if isinstance(v, bytes) else v.encode()) + b"\r\n"
    return head + b"\r\n" + body


def render_chunked(method, target, chunks, headers=None):
    """the same request with Transfer-Encoding: chunked (what the xs client sends); chunks = list of byte strings"""
    h = {"Host": "localhost", "Connection": "close", "Transfer-Encoding": "chunked"}
    if headers:
        h.update(headers)
    head = f"{method} {target} HTTP/1.1\r\n".encode()
    for k, v in h.items():
        head += k.encode() + b": " + (v if isinstance(v, bytes) else v.encode()) + b"\r\n"
    body = b"".join(b"%x\r\n" % len(c) + c + b"\r\n" for c in chunks if c) + b"0\r\n\r\n"
    return head + b"\r\n" + body


def frame_canon(j):
    """a frame as JSON object from the API -> canonical text form (same as the harness/model)"""
    def ttl(t):
        if t is None:
            return "-"
        if t.startswith("time:"):
            return "time:%x" % int(t[5:])
        if t.startswith("head:"):
            return "head:%x" % int(t[5:])
        return t
    meta = j.get("meta")
    return ",".join([
        hex32(s_to_id(j["id"])), hex32(s_to_id(j["context_id"])), xh(j["topic"]),
        xh(j["hash"]) if j.get("hash") else "-",
        xh(json.dumps(meta, separators=(",", ":"), ensure_ascii=False)) if meta is not None else "-",
        ttl(j.get("ttl"))])


TOPICS = ["a", "ab", "a.b", "t-1", "xs.context", "x%20y", "head", "cas2", "import2", "", "x", "a/b", "head/x"]
# topics only an import can create (POST trims every leading slash) - they make route parsing observable
IMPORT_ONLY_TOPICS = ["/head/x", "/x", "/head/head/x", "//a"]
RAW_PATHS = ["/head//head/x", "/head/x", "/head/", "/head", "/head/head", "//head/x", "/head/a/b", "/head/head/x", "/head//x",
             "/head//head/head/x", "/cas", "/cas/", "/cas/nope", "/import", "/import/", "/version", "/version/", "/", "//", "///a",
             "/a/", "/a//b", "//x", "/x", "/head/%2Fhead%2Fx", "/head///a"]
_ROUTE_CACHE = {}


def model_route(method, path):
    """Model/Route.v route_path (extracted) on the raw path -> (route, carried bytes or None)"""
    key = (method, path)
    if key not in _ROUTE_CACHE:
        p = subprocess.run([build.XSMODEL, "route"], input=f"{method} {xh(path)}\n".encode(), stdout=subprocess.PIPE,
                           stderr=subprocess.PIPE, timeout=30)
        t = p.stdout.decode().split()
        _ROUTE_CACHE[key] = (t[0], unxh(t[1]).decode() if len(t) > 1 else None)
    return _ROUTE_CACHE[key]


def valid_id_text(t):
    try:
        return len(t) == 25 and t.isascii() and t.isalnum() and s_to_id(t) < 2 ** 128
    except Exception:
        return False
METAS = [None, "{}", '{"a":1}', '{"b":{"c":[1,2]},"a":"x"}']
BODIES = [b"", b"hello", b"\xff\xfe\x00\x01", b"z" * 9000, b"a"]


class HGen:
    """request sequences over all routes with valid and invalid components"""

    def __init__(self, rnd):
        self.r = rnd
        self.ids = []       # ids of frames believed stored (ints)
        self.ctxs = [0]     # ids of registered contexts
        self.maybe = []
        self.hashes = []
        self.queue = []     # scripted requests served before random ones
        if rnd.random() < 0.5:
            # route-parsing scenario: topics that look like routes, on both sides of a possible confusion
            for t in rnd.sample(IMPORT_ONLY_TOPICS, 2) + ["/head/x"]:
                self.queue.append(("import", t))
            for t in ("x", "head/x"):
                self.queue.append(("post", t))
            for path in ["/head//head/x", "/head/x", "/head/head/x", "/head//x", "/head//head/head/x",
                         # a digest in the URL-safe base64 alphabet is not a digest ssri can decode: 400, not a dropped connection
                         "/cas/sha256-47DEQpj8HBSa__TImW_5JCeuQeRkm5NMpJWZG3hSuFU=", "/cas/sha256-__8="]:
                self.queue.append(("raw", "GET", path))
            rnd.shuffle(self.queue)
            self.queue.sort(key=lambda q: q[0] == "raw")   # lookups after the writes

    def pick_ctx(self):
        k = self.r.random()
        if self.maybe and self.r.random() < 0.3:
            c = self.r.choice(self.maybe)     # ids of imported xs.context-topic frames (registered only if in the zero context)
            return "ok:" + hex32(c), c
        if k < 0.5:
            return "-", 0
        if k < 0.85 and len(self.ctxs) > 1:
            c = self.r.choice(self.ctxs[1:])
            return "ok:" + hex32(c), c
        if k < 0.93:
            c = self.r.randrange(1, 2 ** 64)
            return "ok:" + hex32(c), c
        return "bad", None

    def gen(self):
        """-> dict(kind, model tokens (with ids as hex), raw bytes); appends resolved later"""
        r = self.r
        if self.queue:
            q = self.queue.pop(0)
            if q[0] == "import":
                return self.mk_import(r.randrange(1, 2 ** 90), 0, q[1], None, None)
            if q[0] == "post":
                return self.mk_append(q[1], "-", 0, "-", None, None, None, b"")
            return self.mk_raw(q[1], q[2])
        k = r.choices(["append", "register", "get", "remove", "head", "cat", "casget", "caspost", "import", "version",
                       "notfound", "rawpath"], [10, 3, 4, 3, 4, 5, 3, 2, 3, 1, 1, 5])[0]
        if k == "rawpath":
            method = r.choice(["GET", "GET", "GET", "POST", "DELETE", "PUT"])
            path = r.choice(RAW_PATHS)
            if self.ids and r.random() < 0.2:
                path = r.choice(["", "/", "/x"]) + "/" + id_to_s(r.choice(self.ids)) + r.choice(["", "", "/"])
            return self.mk_raw(method, path)
        return self.gen_random(k)

    def mk_raw(self, method, path):
            """a raw (method, path): the route and what it carries are computed by the extracted route_path"""
            r = self.r
            route, arg = model_route(method, path)
            if route == "version":
                return dict(kind="version", toks=["version"], raw=render(method, path))
            if route == "cat":
                return dict(kind="cat", toks=["cat", "0", "-", "-", "-"], raw=render(method, path))
            if route == "head":
                return dict(kind="head", toks=["head", xh(arg), "-"], raw=render(method, path))
            if route == "casget":
                return dict(kind="casget", toks=["casget", "bad"], raw=render(method, path))
            if route == "caspost":
                body = r.choice(BODIES)
                h = integrity(body) if body else None
                if body:
                    self.hashes.append(h)
                return dict(kind="caspost", toks=["caspost", xh(body), xh(h) if h else "-"], raw=render(method, path, body=body))
            if route == "import":
                return dict(kind="import", toks=["import", "bad"], raw=render(method, path, body=b"{"))
            if route in ("get", "remove"):
                if valid_id_text(arg):
                    i = s_to_id(arg)
                    return dict(kind=route, toks=[route, "ok:" + hex32(i)], raw=render(method, path), removes=i if route == "remove" else None)
                return dict(kind=route, toks=[route, "bad"], raw=render(method, path))
            if route == "append":
                return self.mk_append(arg, "-", 0, "-", None, None, None, r.choice(BODIES[:3]), raw_path=path)
            return dict(kind="notfound", toks=["notfound"], raw=render(method, path))

    def mk_import(self, i, c, topic, meta, ttl):
        fj = dict(topic=topic, context_id=id_to_s(c), id=id_to_s(i), hash=None, meta=json.loads(meta) if meta else None, ttl=ttl)
        body = json.dumps(fj, separators=(",", ":")).encode()
        tt = "-" if ttl is None else (ttl if ":" not in ttl else ttl.split(":")[0] + ":%x" % int(ttl.split(":")[1]))
        toks = ["import", hex32(i), hex32(c), xh(topic), "-", xh(meta) if meta else "-", tt]
        return dict(kind="import", toks=toks, raw=render("POST", "/import", body=body),
                    imports=(i, topic, c) if "\x00" not in topic else None, probe_ctx=i if topic == "xs.context" else None)

    def gen_random(self, k):
        r = self.r
        if k == "register":
            return self.mk_append("xs.context", "-", 0, "-", None, "-", None, b"")
        if k == "append":
            topic = r.choice(TOPICS)
            ctok, cval = self.pick_ctx()
            tt = r.choice(["-", "-", "forever", "ephemeral", "head:2", "time:60000", "BAD:head:0", "BAD:time:-1",
                           "BAD:never", "BAD:head:x", "BAD:time:18446744073709551616"])
            mk = r.choice(["-", "-", "ok", "ok", "b64", "utf8", "utf8s", "json", "nonascii"])
            meta = r.choice(METAS[1:]) if mk == "ok" else None
            return self.mk_append(topic, ctok, cval, tt, mk, meta, None, r.choice(BODIES))
        if k in ("get", "remove"):
            if r.random() < 0.15:
                bad = r.choice(["zzz", "0v1", "x" * 25, "03gytlkyihxc2ubn08iryca9f0"])
                return dict(kind=k, toks=[k, "bad"], raw=render("GET" if k == "get" else "DELETE", "/" + bad))
            i = r.choice(self.ids) if self.ids and r.random() < 0.8 else r.randrange(1, 2 ** 100)
            return dict(kind=k, toks=[k, "ok:" + hex32(i)], raw=render("GET" if k == "get" else "DELETE", "/" + id_to_s(i)),
                        removes=i if k == "remove" else None)
        if k == "head":
            topic = r.choice(TOPICS)
            ctok, cval = self.pick_ctx()
            q = "" if ctok == "-" else ("?" + "&".join(self.decoy_ctx() + ["context=" + (id_to_s(cval) if cval is not None else "nope")]))
            return dict(kind=k, toks=["head", xh(topic), ctok], raw=render("GET", "/head/" + topic + q))
        if k == "cat":
            sse = r.random() < 0.3
            hdr = {"Accept": "text/event-stream"} if sse else {}
            if r.random() < 0.2:
                q = r.choice(["limit=x", "last-id=zz", "context-id=1", "follow=maybe", "limit=-1"])
                return dict(kind=k, toks=["cat", "1" if sse else "0", "bad"], raw=render("GET", "/?" + q, hdr))
            parts, last, lim, ctx = [], "-", "-", "-"
            if self.ids and r.random() < 0.4:
                i = r.choice(self.ids); last = hex32(i); parts.append("last-id=" + id_to_s(i))
            if r.random() < 0.4:
                n = r.choice([0, 1, 2, 5]); lim = "%x" % n; parts.append(f"limit={n}")
            if r.random() < 0.5:
                c = r.choice(self.ctxs); ctx = hex32(c); parts.append("context-id=" + id_to_s(c))
            if r.random() < 0.2:
                parts.append(r.choice(["tail=false", "follow=false", "follow=no", "tail=0"]))
            return dict(kind=k, toks=["cat", "1" if sse else "0", last, lim, ctx],
                        raw=render("GET", "/" + ("?" + "&".join(parts) if parts else ""), hdr))
        if k == "casget":
            kk = r.random()
            if kk < 0.5 and self.hashes:
                h = r.choice(self.hashes)
                return dict(kind=k, toks=["casget", "ok:" + xh(h)], raw=render("GET", "/cas/" + h))
            if kk < 0.8:
                h = integrity(bytes([r.randrange(256) for _ in range(8)]))
                return dict(kind=k, toks=["casget", "ok:" + xh(h)], raw=render("GET", "/cas/" + h))
            return dict(kind=k, toks=["casget", "bad"], raw=render("GET", "/cas/" + r.choice(["nope", "sha256-!!!", "", "md4-abcd", "sha256-abc", "sha256-a", "sha256-ab=c", "sha256-aa==", "sha512-abc",
                                                                                            # URL-safe base64 alphabet: not what ssri decodes
                                                                                            # (only '_': ssri cuts a digest at a second '-')
                                                                                            "sha256-" + base64.urlsafe_b64encode(b"\xfb\xff\xfe" * 10 + b"\xfb\xff").decode().replace("-", "_"),
                                                                                            "sha256-47DEQpj8HBSa__TImW_5JCeuQeRkm5NMpJWZG3hSuFU="])))
        if k == "caspost":
            body = r.choice(BODIES)
            h = integrity(body) if body else None
            if body:
                self.hashes.append(h)
            return dict(kind=k, toks=["caspost", xh(body), xh(h) if h else "-"], raw=render("POST", "/cas", body=body))
        if k == "import":
            if r.random() < 0.25:
                body = r.choice([b"{", b"[]", b'{"topic":"a"}', b"", b'{"topic":1,"context_id":"x"}'])
                return dict(kind=k, toks=["import", "bad"], raw=render("POST", "/import", body=body))
            # a fresh id, or (3 in 10) the id of a frame that is already stored: the import replaces it, whatever it held
            i = r.choice(self.ids) if self.ids and r.random() < 0.3 else r.randrange(1, 2 ** 90)
            c = r.choice(self.ctxs + [r.randrange(1, 2 ** 64)])
            topic = r.choice(TOPICS + IMPORT_ONLY_TOPICS + ["a\x00b", "xs.context"])
            if topic == "xs.context" and r.random() < 0.6:
                c = 0
            return self.mk_import(i, c, topic, r.choice(METAS), r.choice([None, "forever", "head:3", "ephemeral"]))
        if k == "version":
            return dict(kind=k, toks=["version"], raw=render("GET", "/version"))
        return dict(kind="notfound", toks=["notfound"], raw=render(self.r.choice(["PUT", "PATCH"]), "/" + self.r.choice(["a", "cas", ""])))

    def decoy_ctx(self):
        """an earlier occurrence of the `context` parameter (the last one is in force): another context, or garbage"""
        if self.r.random() < 0.25:
            return ["context=" + self.r.choice([id_to_s(self.r.choice(self.ctxs)), id_to_s(self.r.randrange(1, 2 ** 64)), "garbage", ""])]
        return []

    def mk_append(self, topic, ctok, cval, tt, mk, meta, _unused, body, raw_path=None):
        q = []
        if ctok != "-":
            q += self.decoy_ctx()
            q.append("context=" + (id_to_s(cval) if cval is not None else "nope"))
        ttok = "-"
        if tt != "-":
            if tt.startswith("BAD:"):
                q.append("ttl=" + tt[4:]); ttok = "bad"
            else:
                q.append("ttl=" + tt)
                ttok = "ok:" + (tt if ":" not in tt else tt.split(":")[0] + ":%x" % int(tt.split(":")[1]))
        headers = {}
        mtok = "-"
        if mk == "ok":
            headers["xs-meta"] = base64.b64encode(meta.encode()).decode(); mtok = "ok:" + xh(meta)
        elif mk == "b64":
            headers["xs-meta"] = "!!!not-base64"; mtok = "b64"
        elif mk == "utf8":
            headers["xs-meta"] = base64.b64encode(b"\xff\xfe").decode(); mtok = "utf8"
        elif mk == "utf8s":
            # invalid UTF-8 INSIDE a JSON string literal: still "not valid UTF-8", not a lossy replacement
            headers["xs-meta"] = base64.b64encode(self.r.choice([b'{"a":"\xff"}', b'{"a":"x\xc3"}', b'{"k":"\xed\xa0\x80"}'])).decode(); mtok = "utf8"
        elif mk == "json":
            headers["xs-meta"] = base64.b64encode(b"{not json").decode(); mtok = "json"
        elif mk == "nonascii":
            headers["xs-meta"] = "caf\xe9".encode("latin1"); mtok = "nonascii"
        bh = integrity(body) if body else None
        if body:
            self.hashes.append(bh)
        toks = ["append", xh(topic), ctok, ttok, mtok, xh(body), xh(bh) if bh else "-"]
        return dict(kind="append", toks=toks, raw=render("POST", (raw_path or "/" + topic) + ("?" + "&".join(q) if q else ""), headers, body),
                    topic=topic, ctx=cval)


def canon_response(req, status, headers, body):
    """implementation response -> the model's text form"""
    if status is None:
        return "= dropped"
    k = req["kind"]
    def framebody():
        try:
            return "frame " + frame_canon(json.loads(body))
        except Exception:
            return "unparsable " + body[:60].hex()
    if status >= 400:
        return f"= {status} " + ("empty" if not body else "text")
    if status == 204:
        return "= 204 empty"
    if k == "version":
        return "= 200 version" if b'"version"' in body else "= 200 unparsable"
    if k in ("append", "get", "head", "import"):
        return "= 200 " + framebody()
    if k == "cat":
        sse = req["toks"][1] == "1"
        fs = []
        try:
            if sse:
                for ev in body.split(b"\n\n"):
                    for l in ev.split(b"\n"):
                        if l.startswith(b"data: "):
                            fs.append(frame_canon(json.loads(l[6:])))
            else:
                fs = [frame_canon(json.loads(l)) for l in body.split(b"\n") if l.strip()]
        except Exception:
            return "= 200 unparsable " + body[:60].hex()
        ct = headers.get("content-type", "")
        if sse != (ct == "text/event-stream"):
            return f"= 200 wrong-content-type {ct}"
        return " ".join(["= 200 frames", "1" if sse else "0", str(len(fs))] + fs)
    if k == "casget":
        return "= 200 bytes " + xh(body)
    if k == "caspost":
        return "= 200 hash " + xh(body.decode(errors="replace"))
    return f"= {status} other"


def run_sequence(seed, n_req, fixed=True, services="api"):
    """-> dict(mismatches=[...], n, dropped=[...], liveness=bool, trace=[...])"""
    rnd = random.Random(seed)
    srv = Server(services)
    try:
        g = HGen(rnd)
        init = srv.dump()
        model_lines = ["NOW %x" % int(time.time() * 1000)] + [f"INIT {f}" for f in init]
        impl_lines, reqs = [], []
        broken_bad = []
        for n in range(n_req):
            if rnd.random() < 0.06:
                # an upload that fails half-way (cut-off Content-Length body, garbage chunk size, chunk shorter than announced):
                # whatever the answer, it is not a success and the store does not change
                before = srv.dump()
                kind = rnd.choice(["short", "chunksize", "chunkshort"])
                raw = {"short": b"POST /upl HTTP/1.1\r\nHost: x\r\nContent-Length: 40\r\nConnection: close\r\n\r\nseven b",
                       "chunksize": b"POST /upl HTTP/1.1\r\nHost: x\r\nTransfer-Encoding: chunked\r\nConnection: close\r\n\r\n5\r\nhello\r\nZZ\r\nxx\r\n0\r\n\r\n",
                       "chunkshort": b"POST /upl HTTP/1.1\r\nHost: x\r\nTransfer-Encoding: chunked\r\nConnection: close\r\n\r\n5\r\nhello\r\n20\r\nxx"}[kind]
                st_b, _, body_b = srv.request(raw, timeout=1.5, read_for=1.0)
                time.sleep(0.1)
                after = srv.dump() if srv.alive() else None
                if after is None or after != before or (st_b is not None and 200 <= st_b < 300):
                    broken_bad.append(dict(n=n, request=f"broken upload ({kind})", impl=f"status {st_b}; store {len(before or [])} -> {len(after) if after is not None else 'dead'} frames",
                                           model="not a success, store unchanged", raw=raw[:120].decode("latin1")))
            req = g.gen()
            status, headers, body = srv.request(req["raw"])
            resp = canon_response(req, status, headers, body)
            new_id = "0" * 31 + "1"
            if req["kind"] == "append" and status == 200:
                try:
                    j = json.loads(body)
                    i = s_to_id(j["id"])
                    new_id = hex32(i)
                    if j.get("ttl") != "ephemeral":
                        g.ids.append(i)
                    if req.get("topic") == "xs.context" and s_to_id(j["context_id"]) == 0:
                        g.ctxs.append(i)
                except Exception:
                    pass
            if req["kind"] == "import" and status == 200 and req.get("imports"):
                i, topic, c = req["imports"]
                g.ids.append(i)
                if topic == "xs.context":
                    g.maybe.append(i)
                if topic == "xs.context" and c == 0:
                    g.ctxs.append(i)
            if srv.alive():
                srv.gc()
            dump = srv.dump() if srv.alive() else None
            live = None
            hung = status is None and getattr(srv, "last_hung", False)
            if status is None or (status >= 500):
                st2, _, b2 = srv.request(render("GET", "/version"), patience=20.0 if hung else None)
                live = (st2 == 200)
            impl_lines.append((resp, "D " + str(len(dump)) + (" " + " ".join(dump) if dump else "") if dump is not None else "D dead", live))
            model_lines.append("REQ " + new_id + " " + " ".join(req["toks"]))
            reqs.append(req)
            if hung:
                break       # a request left unanswered for 90 s: reported as dropped; the rest of the sequence would only repeat it
        m = subprocess.run([build.XSMODEL, "http", "1" if fixed else "0"], input=("\n".join(model_lines) + "\n").encode(),
                           stdout=subprocess.PIPE, stderr=subprocess.PIPE, timeout=120)
        out = m.stdout.decode().splitlines()
        model = [(out[i + 1], out[i + 2]) for i in range(0, len(out) - 2, 3)] if m.returncode == 0 else []
        mism, dropped, not_live, errs5 = list(broken_bad), [], [], []
        for n, ((resp, dump, live), req) in enumerate(zip(impl_lines, reqs)):
            if resp == "= dropped":
                dropped.append(dict(n=n, request=" ".join(req["toks"])[:200], raw=req["raw"][:300].decode("latin1")))
            if live is False:
                not_live.append(n)
            if n < len(model):
                mresp, mdump = model[n]
                if resp != mresp or dump.rstrip() != mdump.rstrip():
                    mism.append(dict(n=n, request=" ".join(req["toks"])[:300], impl=resp[:300], model=mresp[:300],
                                     impl_dump=dump[:200], model_dump=mdump[:200], raw=req["raw"][:300].decode("latin1")))
        return dict(n=len(reqs), mismatches=mism, dropped=dropped, not_live=not_live, model_rc=m.returncode,
                    model_err=m.stderr.decode()[-500:], kinds=[r["kind"] for r in reqs],
                    statuses=[l[0].split(" ")[1] for l in impl_lines],
                    stderr_tail=(srv.stderr_tail() + " connect: " + getattr(srv, "last_connect_error", "-")) if (dropped or not_live) else "",
                    sample=[" ".join(r["toks"])[:120] for r in reqs[:6]],
                    raws=[r["raw"][:400].decode("latin1") for r in reqs])
    finally:
        srv.close()


def head_follow_probe():
    """C06: GET /head/{topic}?follow&context=B must deliver only frames of context B.
    -> dict(delivered=[ctx ids as ints], expected_ctx=B)"""
    srv = Server("api")
    try:
        def post(topic, ctx=None, body=b"x"):
            q = "?context=" + id_to_s(ctx) if ctx else ""
            st, hd, b = srv.request(render("POST", "/" + topic + q, body=body))
            return s_to_id(json.loads(b)["id"]) if st == 200 else None
        b_ctx = post("xs.context")
        post("t", b_ctx, b"old")                     # current head in B
        s = socket.socket(socket.AF_UNIX, socket.SOCK_STREAM)
        s.settimeout(0.2)
        s.connect(srv.sock)
        s.sendall(render("GET", f"/head/t?follow=true&context={id_to_s(b_ctx)}", {"Connection": "keep-alive"}))
        time.sleep(0.3)
        post("t", None, b"in-zero")                  # same topic, another context
        post("t", b_ctx, b"in-b")
        post("t", None, b"in-zero-2")
        data, t0 = b"", time.time()
        while time.time() - t0 < 1.2:
            try:
                chunk = s.recv(65536)
                if not chunk:
                    break
                data += chunk
            except socket.timeout:
                pass
        s.close()
        frames = []
        for line in data.split(b"\n"):
            line = line.strip()
            if line.startswith(b"{") and b'"topic"' in line:
                try:
                    frames.append(json.loads(line))
                except Exception:
                    pass
        return dict(expected_ctx=b_ctx, delivered=[(s_to_id(f["context_id"]), f["topic"]) for f in frames])
    finally:
        srv.close()
