"""Regenerate the seeded-changes table in DESIGN.md (between the SEEDED markers) from seeded/*/meta.json."""
import json, os, re
ROOT = os.path.dirname(os.path.dirname(os.path.abspath(__file__)))


def main():
    rows = []
    for name in sorted(os.listdir(os.path.join(ROOT, "seeded"))):
        mp = os.path.join(ROOT, "seeded", name, "meta.json")
        if not os.path.exists(mp):
            continue
        m = json.load(open(mp))
        conf = m.get("confirmation", {})
        ok = conf.get("compiles") and not conf.get("existing_suite_failed") and conf.get("demo_fails_with_change") and conf.get("demo_passes_without_change")
        checks = m.get("checks", {})
        caught = [f"{p}{'' if c.get('concrete') else ' (no-failing-input-found)'}" for p, c in sorted(checks.items()) if c.get("exit") == 1]
        missed = [p for p, c in sorted(checks.items()) if c.get("exit") == 0]
        summary = (m.get("summary") or m.get("why_it_breaks") or "").replace("|", "/").replace("\n", " ")[:170]
        needs = (m.get("needs_to_manifest") or "").replace("|", "/").replace("\n", " ")[:150]
        rows.append(f"| `{name}` | {summary} | {needs} | {'yes' if ok else 'PARTIAL: ' + str({k: conf.get(k) for k in ('compiles', 'existing_suite_failed', 'demo_fails_with_change', 'demo_passes_without_change')})} | {', '.join(caught) or '-'} | {', '.join(missed) or '-'} |")
    table = ("| seeded change | what it does | needs to manifest | confirmed (compiles, suite passes, demo fails with / passes without) | caught by (quick tier) | not caught by |\n"
             "|---|---|---|---|---|---|\n" + "\n".join(rows))
    p = os.path.join(ROOT, "DESIGN.md")
    s = open(p).read()
    s = re.sub(r"<!-- SEEDED-BEGIN -->.*<!-- SEEDED-END -->", lambda _m: "<!-- SEEDED-BEGIN -->\n" + table + "\n<!-- SEEDED-END -->", s, flags=re.S)
    open(p, "w").write(s)
    print(len(rows), "rows")


if __name__ == "__main__":
    main()
