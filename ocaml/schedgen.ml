(* Schedule generation for engine C from the extracted transition system (Model/Conc.v).
   Trusted glue: parses a configuration, random-walks / finishes the model choosing enabled
   labels, and prints for every step where the model says each entity parks next. *)
open Xsmodel

let n_of_int (i : int) : n = Driverlib.n_of_int i
let int_of_n (x : n) : int = Driverlib.int_of_n x
let rec nat_of_int i = if i <= 0 then O else S (nat_of_int (i - 1))
let rec int_of_nat = function O -> 0 | S n -> 1 + int_of_nat n

type cfg = {
  mutable pre : cfr list;                 (* initial stream, rank order *)
  mutable nctx : int;
  mutable writers : (int * payload list) list;
  mutable followers : (int * fopts) list;
  mutable pollers : int list;
  mutable lines : string list;            (* config lines to echo *)
}

let parse_cfg (lines : string list) : cfg =
  let c = { pre = []; nctx = 1; writers = []; followers = []; pollers = []; lines = [] } in
  let rank = ref 0 in
  List.iter (fun line ->
      let toks = List.filter (fun s -> s <> "") (String.split_on_char ' ' (String.trim line)) in
      match toks with
      | [] -> ()
      | "ctx" :: _ ->
        c.pre <- c.pre @ [{ c_id = n_of_int !rank; c_ctx = N0; c_eph = false }];
        incr rank; c.nctx <- c.nctx + 1; c.lines <- c.lines @ [line]
      | "pre" :: cx :: rest ->
        let n = match rest with [k] -> int_of_string k | _ -> 1 in
        for _ = 1 to n do
          c.pre <- c.pre @ [{ c_id = n_of_int !rank; c_ctx = n_of_int (int_of_string cx); c_eph = false }];
          incr rank
        done;
        c.lines <- c.lines @ [line]
      | "writer" :: w :: ps ->
        let pl = List.concat_map (fun p ->
            let (p, reps) = match String.split_on_char '*' p with
              | [a; n] -> (a, int_of_string n) | _ -> (p, 1) in
            match String.split_on_char ':' p with
            | [cx; e; ok] ->
              List.init reps (fun _ -> { p_ctx = n_of_int (int_of_string cx); p_eph = (e = "e"); p_ok = (ok = "ok") })
            | _ -> failwith ("bad payload " ^ p)) ps in
        c.writers <- c.writers @ [(int_of_string w, pl)]; c.lines <- c.lines @ [line]
      | ["follower"; k; follow; tail; last; limit; cx; pulse] ->
        let o = { o_follow = (follow = "1"); o_tail = (tail = "1");
                  o_last = (if last = "-" then None else Some (n_of_int (int_of_string last)));
                  o_limit = (if limit = "-" then None else Some (n_of_int (int_of_string limit)));
                  o_ctx = (if cx = "-" then None else Some (n_of_int (int_of_string cx)));
                  o_pulse = (pulse <> "-") } in
        c.followers <- c.followers @ [(int_of_string k, o)]; c.lines <- c.lines @ [line]
      | ["poller"; p] -> c.pollers <- c.pollers @ [int_of_string p]; c.lines <- c.lines @ [line]
      | _ -> ()) lines;
  c

let init_of_cfg (locked : bool) (c : cfg) : cstate =
  cinit locked (n_of_int (List.length c.pre)) c.pre
    (List.map snd c.writers) (List.map snd c.followers) (nat_of_int (List.length c.pollers))

(* ---- expectations: where does each entity park after a step ---- *)
let rk f = string_of_int (int_of_n f.c_id)
let wpark i (w : writer) : string option =
  match w.w_st with
  | WAssigned (f, _) -> Some (Printf.sprintf "W%d@after_id#%s" i (rk f))
  | WCommitted f -> Some (Printf.sprintf "W%d@after_commit#%s" i (rk f))
  | WBcasted f -> Some (Printf.sprintf "W%d@after_broadcast#%s" i (rk f))
  | WIdle -> Some (Printf.sprintf "W%d@%s" i (if w.w_todo = [] then "done" else "enter"))
  | WBlocked -> Some (Printf.sprintf "W%d!blocked" i)
let hpark k (fl : follower) : string option =
  match fl.f_h with
  | HAtSend f -> Some (Printf.sprintf "F%dH@before_send#%s" k (rk f))
  | HAtThreshold -> Some (Printf.sprintf "F%dH@before_threshold" k)
  | HAtDone -> Some (Printf.sprintf "F%dH@before_done" k)
  | _ -> None
let lpark k (fl : follower) : string option =
  match fl.f_l with
  | LAtRecv f -> Some (Printf.sprintf "F%dL@after_recv#%s" k (rk f))
  | LAtSent -> Some (Printf.sprintf "F%dL@after_send" k)
  | _ -> None

(* autonomous progress of un-parked live tasks up to their next park *)
let rec settle (s : cstate) : cstate =
  let n = List.length s.g_fs in
  let rec go k =
    if k >= n then None
    else
      let fl = List.nth s.g_fs k in
      let waiting = (match fl.f_l, fl.f_h with
          | LRecvWait, _ -> true
          | LWaiting, HFinished true -> true
          | _ -> false) in
      if waiting then
        match cstep s (LLive (nat_of_int k)) with
        | Some s' -> Some s'
        | None -> go (k + 1)
      else go (k + 1) in
  match go 0 with Some s' -> settle s' | None -> s

let diff_parks (s : cstate) (s' : cstate) (moved : string option) : string list =
  let acc = ref [] in
  List.iteri (fun i w' ->
      let w = List.nth s.g_ws i in
      if w.w_st <> w'.w_st || (moved = Some (Printf.sprintf "W%d" i)) then
        match wpark i w' with Some p -> acc := p :: !acc | None -> ()) s'.g_ws;
  List.iteri (fun k fl' ->
      let fl = List.nth s.g_fs k in
      (if fl.f_h <> fl'.f_h || moved = Some (Printf.sprintf "F%dH" k) then
         match hpark k fl' with Some p -> acc := p :: !acc | None -> ());
      (if fl.f_l <> fl'.f_l || moved = Some (Printf.sprintf "F%dL" k) then
         match lpark k fl' with Some p -> acc := p :: !acc | None -> ())) s'.g_fs;
  List.rev !acc

let item_str = function
  | IReal f -> Printf.sprintf "item:real#%s@%d" (rk f) (int_of_n f.c_ctx)
  | IThreshold -> "item:threshold"
  | IPulse -> "item:pulse"

(* returns the go-line for label l applied in s, and the successor *)
let go_line (s : cstate) (l : label) : (string * cstate) option =
  match cstep s l with
  | None -> None
  | Some s1 ->
    let s' = settle s1 in
    let line = match l with
      | LEnter w -> let i = int_of_nat w in
        Printf.sprintf "go enter %d => %s" i (String.concat " " (diff_parks s s' (Some (Printf.sprintf "W%d" i))))
      | LCommit w -> let i = int_of_nat w in
        Printf.sprintf "go commit %d => %s" i (String.concat " " (diff_parks s s' (Some (Printf.sprintf "W%d" i))))
      | LBcast w -> let i = int_of_nat w in
        Printf.sprintf "go bcast %d => %s" i (String.concat " " (diff_parks s s' (Some (Printf.sprintf "W%d" i))))
      | LRelease w -> let i = int_of_nat w in
        Printf.sprintf "go release %d => %s" i (String.concat " " (diff_parks s s' (Some (Printf.sprintf "W%d" i))))
      | LPoll p -> let i = int_of_nat p in
        let before = List.length (List.nth s.g_ps i) in
        let acc = List.nth s'.g_ps i in
        let fresh = List.filteri (fun j _ -> j >= before) acc in
        Printf.sprintf "go poll %d => frames%s" i (String.concat "" (List.map (fun f -> ":#" ^ rk f) fresh))
      | LSubscribe k -> let i = int_of_nat k in Printf.sprintf "go subscribe %d => F%dC@after_subscribe" i i
      | LStart k -> let i = int_of_nat k in
        Printf.sprintf "go start %d => %s" i (String.concat " " (diff_parks s s' None))
      | LHist k -> let i = int_of_nat k in
        Printf.sprintf "go hist %d => %s" i (String.concat " " (diff_parks s s' (Some (Printf.sprintf "F%dH" i))))
      | LLive k -> let i = int_of_nat k in
        Printf.sprintf "go live %d => %s" i (String.concat " " (diff_parks s s' (Some (Printf.sprintf "F%dL" i))))
      | LPulse _ -> "// pulse"
      | LConsume k -> let i = int_of_nat k in
        let fl' = List.nth s'.g_fs i in
        let it = List.nth fl'.f_got (List.length fl'.f_got - 1) in
        Printf.sprintf "go consume %d => %s" i (item_str it) in
    Some (line, s')

let probe_line (s : cstate) (k : int) : string =
  let fl = List.nth s.g_fs k in
  let senders_gone = closed { fl with f_out = [] } in
  Printf.sprintf "go probe %d => %s" k
    (if closed fl then "closed" else if senders_gone then "draining" else "open")

(* candidate labels a scheduler may fire: only entities that are parked (or not started) *)
let candidates (s : cstate) : label list =
  let ls = ref [] in
  List.iteri (fun i (w : writer) ->
      let n = nat_of_int i in
      match w.w_st with
      | WIdle -> if w.w_todo <> [] then ls := LEnter n :: !ls
      | WAssigned _ -> ls := LCommit n :: !ls
      | WCommitted _ -> ls := LBcast n :: !ls
      | WBcasted _ -> ls := LRelease n :: !ls
      | WBlocked -> ()) s.g_ws;
  List.iteri (fun k (fl : follower) ->
      let n = nat_of_int k in
      if not fl.f_subscribed then ls := LSubscribe n :: !ls
      else begin
        (match fl.f_h with
         | HNotStarted -> ls := LStart n :: !ls
         | HAtSend _ | HAtThreshold | HAtDone -> ls := LHist n :: !ls
         | _ -> ());
        (match fl.f_l with LAtRecv _ | LAtSent -> ls := LLive n :: !ls | _ -> ());
        if fl.f_out <> [] then ls := LConsume n :: !ls
      end) s.g_fs;
  List.iteri (fun p _ -> ls := LPoll (nat_of_int p) :: !ls) s.g_ps;
  List.filter (fun l -> cstep s l <> None) (List.rev !ls)

let is_blocking_enter (s : cstate) (l : label) : bool =
  match l with LEnter _ -> not (lock_free s) | _ -> false

let weight (s : cstate) (l : label) : int =
  match l with
  | LPoll _ -> 2
  | LConsume _ -> 4
  | LEnter _ -> if is_blocking_enter s l then 1 else 6
  | LSubscribe _ | LStart _ -> 5
  | _ -> 6

let gen (locked : bool) (cfg : cfg) (seed : int) (steps : int) (finish : bool) : string list =
  Random.init seed;
  let s = ref (init_of_cfg locked cfg) in
  let out = ref (List.rev cfg.lines) in
  let emit l = out := l :: !out in
  let fire l = match go_line !s l with
    | Some (line, s') -> emit line; s := s'
    | None -> () in
  let n = ref 0 in
  let continue = ref true in
  while !continue && !n < steps do
    let cs = candidates !s in
    if cs = [] then continue := false
    else begin
      let tot = List.fold_left (fun a l -> a + weight !s l) 0 cs in
      let r = ref (Random.int tot) in
      let pick = ref (List.hd cs) in
      (try List.iter (fun l -> let w = weight !s l in if !r < w then (pick := l; raise Exit) else r := !r - w) cs
       with Exit -> ());
      fire !pick;
      if Random.int 12 = 0 && !s.g_fs <> [] then begin
        let k = Random.int (List.length !s.g_fs) in
        if (List.nth !s.g_fs k).f_h <> HNotStarted then emit (probe_line !s k)
      end;
      incr n
    end
  done;
  if finish then begin
    (* drive to quiescence: no polls, everything else until nothing is enabled *)
    let guard = ref 0 in
    let rec loop () =
      incr guard;
      let cs = List.filter (fun l -> match l with LPoll _ -> false | _ -> not (is_blocking_enter !s l)) (candidates !s) in
      match cs with
      | [] -> ()
      | l :: _ when !guard < 20000 -> fire l; loop ()
      | _ -> () in
    loop ();
    List.iteri (fun p _ -> fire (LPoll (nat_of_int p))) !s.g_ps;
    List.iteri (fun k fl -> if fl.f_h <> HNotStarted then emit (probe_line !s k)) !s.g_fs
  end;
  List.rev !out

(* replay explicit labels (a refutation witness or a corpus schedule): lines "label idx" *)
let of_labels (locked : bool) (cfg : cfg) (labels : (string * int) list) : string list =
  let s = ref (init_of_cfg locked cfg) in
  let out = ref (List.rev cfg.lines) in
  List.iter (fun (name, i) ->
      let n = nat_of_int i in
      if name = "probe" then out := probe_line !s i :: !out
      else if name = "drain" then out := (Printf.sprintf "go drain %d =>" i) :: !out
      else if name = "burst" then begin
        (* writer i runs all its remaining appends without parking *)
        let s0 = !s in
        let guard = ref 0 in
        let continue = ref true in
        while !continue && !guard < 100000 do
          incr guard;
          let w = List.nth !s.g_ws i in
          let l = match w.w_st with
            | WIdle -> if w.w_todo = [] then None else Some (LEnter n)
            | WAssigned _ -> Some (LCommit n) | WCommitted _ -> Some (LBcast n) | WBcasted _ -> Some (LRelease n)
            | WBlocked -> None in
          match l with
          | None -> continue := false
          | Some l -> (match cstep !s l with Some s' -> s := s' | None -> continue := false)
        done;
        s := settle !s;
        out := (Printf.sprintf "go burst %d => %s" i
                  (String.concat " " (diff_parks s0 !s (Some (Printf.sprintf "W%d" i))))) :: !out
      end
      else
        let l = match name with
          | "enter" -> LEnter n | "commit" -> LCommit n | "bcast" -> LBcast n | "release" -> LRelease n
          | "poll" -> LPoll n | "subscribe" -> LSubscribe n | "start" -> LStart n | "hist" -> LHist n
          | "live" -> LLive n | "consume" -> LConsume n | _ -> failwith ("label " ^ name) in
        match go_line !s l with
        | Some (line, s') -> out := line :: !out; s := s'
        | None -> out := (Printf.sprintf "// not enabled in the model: %s %d" name i) :: !out) labels;
  List.rev !out
