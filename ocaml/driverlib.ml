(* Driver for the extracted model (trusted glue): parses the op lines of a trace
   written by `xsv seq`, runs Xsmodel.step, prints the model's observations in the
   same canonical text form the harness uses. *)
open Xsmodel

(* ---- N <-> hex ------------------------------------------------------------ *)
let rec pos_of_bits = function          (* bits MSB first, leading 1 *)
  | [] -> failwith "pos_of_bits"
  | [true] -> XH
  | _ :: [] -> failwith "pos_of_bits"
  | bits ->
    (* build from MSB: fold *)
    let rec go acc = function
      | [] -> acc
      | b :: r -> go (if b then XI acc else XO acc) r in
    (match bits with
     | true :: r -> go XH r
     | _ -> failwith "pos_of_bits: leading zero")

let n_of_hex (s : string) : n =
  let bits = ref [] in
  String.iter (fun c ->
      let v = match c with
        | '0'..'9' -> Char.code c - 48
        | 'a'..'f' -> Char.code c - 87
        | 'A'..'F' -> Char.code c - 55
        | _ -> failwith ("bad hex: " ^ s) in
      bits := ((v land 1) = 1) :: ((v land 2) = 2) :: ((v land 4) = 4) :: ((v land 8) = 8) :: !bits)
    s;
  (* !bits is LSB first; make MSB first and strip leading zeros *)
  let msb = List.rev !bits in
  let rec strip = function false :: r -> strip r | l -> l in
  match strip msb with
  | [] -> N0
  | l -> Npos (pos_of_bits l)

let rec pos_bits_lsb = function
  | XH -> [true]
  | XO p -> false :: pos_bits_lsb p
  | XI p -> true :: pos_bits_lsb p

let hex_of_n ?(width=0) (x : n) : string =
  let bits = match x with N0 -> [] | Npos p -> pos_bits_lsb p in
  let rec nibbles = function
    | [] -> []
    | [a] -> [a, false, false, false]
    | [a; b] -> [a, b, false, false]
    | [a; b; c] -> [a, b, c, false]
    | a :: b :: c :: d :: r -> (a, b, c, d) :: nibbles r in
  let digs = List.map (fun (a, b, c, d) ->
      (if a then 1 else 0) + (if b then 2 else 0) + (if c then 4 else 0) + (if d then 8 else 0))
      (nibbles bits) in
  let s = String.concat "" (List.rev_map (Printf.sprintf "%x") digs) in
  let s = if s = "" then "0" else s in
  if String.length s < width then String.make (width - String.length s) '0' ^ s else s

let n_of_int (i : int) : n = n_of_hex (Printf.sprintf "%x" i)
let int_of_n (x : n) : int = int_of_string ("0x" ^ hex_of_n x)

(* ---- bytes <-> hex with 'x' prefix; '-' = none ----------------------------- *)
let bytes_of_xhex (s : string) : bytes =
  if String.length s = 0 || s.[0] <> 'x' then failwith ("bad bytes: " ^ s);
  let n = (String.length s - 1) / 2 in
  List.init n (fun i -> n_of_int (int_of_string ("0x" ^ String.sub s (1 + 2 * i) 2)))

let xhex_of_bytes (b : bytes) : string =
  "x" ^ String.concat "" (List.map (fun x -> Printf.sprintf "%02x" (int_of_n x)) b)

let opt f s = if s = "-" then None else Some (f s)
let id_of s = n_of_hex s
let str_of_id x = hex_of_n ~width:32 x

let ttl_of s =
  if s = "-" then None
  else if s = "forever" then Some Forever
  else if s = "ephemeral" then Some Ephemeral
  else if String.length s > 5 && String.sub s 0 5 = "time:" then
    Some (Time (n_of_hex (String.sub s 5 (String.length s - 5))))
  else if String.length s > 5 && String.sub s 0 5 = "head:" then
    Some (Head (n_of_hex (String.sub s 5 (String.length s - 5))))
  else failwith ("bad ttl: " ^ s)

let str_of_ttl = function
  | None -> "-"
  | Some Forever -> "forever"
  | Some Ephemeral -> "ephemeral"
  | Some (Time ms) -> "time:" ^ hex_of_n ms
  | Some (Head k) -> "head:" ^ hex_of_n k

let str_of_optbytes = function None -> "-" | Some b -> xhex_of_bytes b

let str_of_frame f =
  String.concat ","
    [ str_of_id f.f_id; str_of_id f.f_ctx; xhex_of_bytes f.f_topic;
      str_of_optbytes f.f_hash; str_of_optbytes f.f_meta; str_of_ttl f.f_ttl ]

let frame_of id ctx topic hash meta ttl =
  { f_id = id_of id; f_ctx = id_of ctx; f_topic = bytes_of_xhex topic;
    f_hash = opt bytes_of_xhex hash; f_meta = opt bytes_of_xhex meta; f_ttl = ttl_of ttl }

let parse_op (toks : string list) : op =
  match toks with
  | ["append"; id; ctx; topic; hash; meta; ttl] ->
    OAppend (id_of id, frame_of "0" ctx topic hash meta ttl)
  | ["import"; id; ctx; topic; hash; meta; ttl] -> OImport (frame_of id ctx topic hash meta ttl)
  | ["remove"; id] -> ORemove (id_of id)
  | ["setnow"; t] -> OSetNow (n_of_hex t)
  | ["gcstep"] -> OGcStep
  | ["drain"] -> ODrain
  | ["reopen"] -> OReopen
  | ["readsync"; last; lim; ctx] -> OReadSync (opt id_of last, opt n_of_hex lim, opt id_of ctx)
  | ["read"; last; lim; ctx] -> ORead (opt id_of last, opt n_of_hex lim, opt id_of ctx)
  | ["get"; id] -> OGet (id_of id)
  | ["head"; topic; ctx] -> OHead (bytes_of_xhex topic, id_of ctx)
  | _ -> failwith ("bad op: " ^ String.concat " " toks)

let str_of_obs = function
  | RFrame (Ok f) -> "= ok " ^ str_of_frame f
  | RFrame (Err _) -> "= err"
  | RUnit (Ok _) -> "= unit"
  | RUnit (Err _) -> "= err"
  | RNone -> "= done"
  | RFrames l -> String.concat " " ("= frames" :: string_of_int (List.length l) :: List.map str_of_frame l)
  | ROpt None -> "= none"
  | ROpt (Some f) -> "= some " ^ str_of_frame f

