(* Driver for the extracted model (trusted glue). *)
open Xsmodel
open Driverlib

(* `seq`: stdin = trace; lines "OP ..." are executed, everything else is skipped;
   a line "NEW <now>" starts a fresh store.  Output per op:
     OP ...          echo
     = ...           observation of the concrete model (Model/Store.v)
     ~ ...           observation of the abstract spec  (Model/Spec.v)
     ! hyp           (only when the refinement hypotheses are violated by this op;
                      from then on the spec is not expected to agree) *)
let run_seq () =
  let s = ref (empty_store N0) in
  let a = ref (a_empty N0) in
  (try
     while true do
       let line = input_line stdin in
       let toks = String.split_on_char ' ' (String.trim line) in
       match toks with
       | "NEW" :: [now] ->
         s := empty_store (n_of_hex now); a := a_empty (n_of_hex now); print_endline line
       | ["OP"; "rawdump"] ->
         (* not an operation of the model: the model's three partitions as they are (keys in key order) *)
         let hx (k : bytes) = String.concat "" (List.map (fun b -> Printf.sprintf "%02x" (int_of_n b)) k) in
         let keys l = String.concat "," (List.map (fun e -> hx (fst e)) l) in
         let r = Printf.sprintf "raw S[%s] T[%s] C[%s]" (keys !s.s_stream) (keys !s.s_itopic) (keys !s.s_ictx) in
         print_endline line; print_endline ("= " ^ r); print_endline ("~ " ^ r)
       | "OP" :: rest ->
         let o = parse_op rest in
         let h = hyp_all !a o in
         let (ob, s') = step !s o in
         let (ab, a') = a_step !a o in
         s := s'; a := a';
         print_endline line;
         print_endline (str_of_obs ob);
         let sa = str_of_obs ab in
         print_endline ("~" ^ String.sub sa 1 (String.length sa - 1));
         if not h then print_endline "! hyp"
       | _ -> ()
     done
   with End_of_file -> ())

let read_lines () =
  let ls = ref [] in
  (try while true do ls := input_line stdin :: !ls done with End_of_file -> ());
  List.rev !ls

(* ---- engine H: the HTTP front-end model (Model/Http.v) ------------------------------------ *)
let qid_of s =
  if s = "-" then QAbsent else if s = "bad" then QBad
  else if String.length s > 3 && String.sub s 0 3 = "ok:" then QOk (n_of_hex (String.sub s 3 (String.length s - 3)))
  else failwith ("qid " ^ s)
let qttl_of s =
  if s = "-" then TAbsent else if s = "bad" then TBad
  else if String.length s > 3 && String.sub s 0 3 = "ok:" then
    (match ttl_of (String.sub s 3 (String.length s - 3)) with Some t -> TOk t | None -> TAbsent)
  else failwith ("qttl " ^ s)
let hmeta_of s =
  match s with
  | "-" -> MAbsent | "b64" -> MBadB64 | "utf8" -> MBadUtf8 | "json" -> MBadJson | "nonascii" -> MNonAscii
  | _ when String.length s > 3 && String.sub s 0 3 = "ok:" -> MOk (bytes_of_xhex (String.sub s 3 (String.length s - 3)))
  | _ -> failwith ("hmeta " ^ s)

let hreq_of (toks : string list) : hreq =
  match toks with
  | ["version"] -> RVersion
  | ["cat"; sse; "bad"] -> RCat (sse = "1", None)
  | ["cat"; sse; last; lim; ctx] -> RCat (sse = "1", Some ((opt id_of last, opt n_of_hex lim), opt id_of ctx))
  | ["append"; topic; c; t; m; body; bh] ->
    RAppend (bytes_of_xhex topic, qid_of c, qttl_of t, hmeta_of m, bytes_of_xhex body,
             (if bh = "-" then [] else bytes_of_xhex bh))
  | ["get"; i] -> RGet (qid_of i)
  | ["remove"; i] -> RRemove (qid_of i)
  | ["head"; topic; c] -> RHead (bytes_of_xhex topic, qid_of c)
  | ["casget"; "bad"] -> RCasGet None
  | ["casget"; h] -> RCasGet (Some (bytes_of_xhex (String.sub h 3 (String.length h - 3))))
  | ["caspost"; body; bh] -> RCasPost (bytes_of_xhex body, (if bh = "-" then [] else bytes_of_xhex bh))
  | ["import"; "bad"] -> RImport None
  | ["import"; id; ctx; topic; hash; meta; ttl] -> RImport (Some (frame_of id ctx topic hash meta ttl))
  | ["notfound"] -> RNotFound
  | _ -> failwith ("bad request: " ^ String.concat " " toks)

let str_of_hresp = function
  | HDropped -> "= dropped"
  | HResp (st, b) ->
    let body = match b with
      | BEmpty -> "empty" | BText -> "text" | BVersion -> "version"
      | BFrame f -> "frame " ^ str_of_frame f
      | BFrames (sse, l) ->
        String.concat " " ("frames" :: (if sse then "1" else "0") :: string_of_int (List.length l) :: List.map str_of_frame l)
      | BBytes b -> "bytes " ^ xhex_of_bytes b
      | BHash h -> "hash " ^ xhex_of_bytes h in
    Printf.sprintf "= %d %s" (int_of_n st) body

(* `http <fixed 0|1>`: stdin lines "INIT <frame>" (initial store content) and
   "REQ <id hex> <request tokens>"; output: echo + "= <response>" + "D <n> <frames>" *)
let run_http fixed =
  let st = ref { h_store = empty_store N0; h_cas = [] } in
  List.iter (fun line ->
      let toks = List.filter (fun s -> s <> "") (String.split_on_char ' ' (String.trim line)) in
      match toks with
      | "NOW" :: [t] -> st := { !st with h_store = empty_store (n_of_hex t) }
      | "INIT" :: [f] ->
        (match String.split_on_char ',' f with
         | [id; ctx; topic; hash; meta; ttl] ->
           let (_, s') = step !st.h_store (OImport (frame_of id ctx topic hash meta ttl)) in
           st := { !st with h_store = s' }
         | _ -> failwith "INIT")
      | "REQ" :: id :: rest ->
        let r = hreq_of rest in
        let (resp, st0) = handle fixed !st (n_of_hex id) r in
        (* the GC worker runs by itself in the server: the orchestrator waits for it after
           every request, the model drains *)
        let st' = { st0 with h_store = snd (step st0.h_store ODrain) } in
        st := st';
        print_endline line;
        print_endline (str_of_hresp resp);
        let fs = List.map snd st'.h_store.s_stream in
        print_endline (String.concat " " ("D" :: string_of_int (List.length fs) :: List.map str_of_frame fs))
      | _ -> ()) (read_lines ())

(* ---- engine V: handler dispatch model (Model/Handler.v) --------------------------------- *)
let kv_of toks =
  List.filter_map (fun t -> match String.index_opt t '=' with
      | Some i -> Some (String.sub t 0 i, String.sub t (i + 1) (String.length t - i - 1))
      | None -> None) toks
let getk k l = try List.assoc k l with Not_found -> "-"

let run_handler () =
  let conf = ref None and prog = ref None and frames = ref [] in
  List.iter (fun line ->
      let toks = List.filter (fun s -> s <> "") (String.split_on_char ' ' (String.trim line)) in
      match toks with
      | "CONF" :: rest ->
        let kv = kv_of rest in
        conf := Some { h_id = id_of (getk "id" kv); h_ctx = id_of (getk "ctx" kv);
                       h_name = bytes_of_xhex (getk "name" kv); h_suffix = bytes_of_xhex (getk "suffix" kv);
                       h_ttl = ttl_of (getk "ttl" kv) }
      | "PROG" :: rest ->
        let kv = kv_of rest in
        let rec apps = function
          | "A" :: topic :: meta :: ttl :: ctx :: content :: r ->
            { oa_topic = bytes_of_xhex topic; oa_meta = opt bytes_of_xhex meta; oa_ttl = ttl_of ttl;
              oa_ctx = opt id_of ctx; oa_content = bytes_of_xhex content } :: apps r
          | _ :: r -> apps r
          | [] -> [] in
        let ret = match String.split_on_char ':' (getk "ret" kv) with
          | ["nothing"] -> RNothing | ["str"; s] -> RStr (bytes_of_xhex s) | ["int"; n] -> RInt (n_of_hex n)
          | ["count"] -> RCount | ["topic"] -> RTopic | _ -> failwith "ret" in
        let fail = match String.split_on_char ':' (getk "fail" kv) with
          | ["none"] -> FNone | ["before"] -> FBefore | ["after"] -> FAfter
          | ["between"; k] -> FBetween (Schedgen.nat_of_int (int_of_string k)) | _ -> failwith "fail" in
        prog := Some { p_guard = opt bytes_of_xhex (getk "guard" kv); p_appends = apps rest; p_ret = ret; p_fail = fail }
      | ["F"; id; ctx; topic; hid] ->
        frames := { sf_id = id_of id; sf_ctx = id_of ctx; sf_topic = bytes_of_xhex topic; sf_hid = opt id_of hid } :: !frames
      | _ -> ()) (read_lines ());
  match !conf, !prog with
  | Some c, Some p ->
    let (outs, seen) = serve (dsl_closure p) c N0 (List.rev !frames) in
    List.iter (fun e ->
        Printf.printf "E %s %s %s %s %s %s %s %d\n" (xhex_of_bytes e.e_topic) (str_of_id e.e_ctx) (str_of_id e.e_hid)
          (str_of_id e.e_fid) (str_of_ttl e.e_ttl) (str_of_optbytes e.e_content) (str_of_optbytes e.e_meta)
          (if e.e_err then 1 else 0)) outs;
    List.iter (fun f -> Printf.printf "SEEN %s\n" (str_of_id f.sf_id)) seen
  | _ -> failwith "handler: missing CONF/PROG"

(* ---- codec mode (Model/Codec.v): TTL and ReadOptions grammars on decoded strings / pairs ---- *)
let bytes_of_string (s : string) : bytes = List.init (String.length s) (fun i -> n_of_int (Char.code s.[i]))
let string_of_bytes (b : bytes) : string = String.init (List.length b) (fun i -> Char.chr (int_of_n (List.nth b i)))
(* ids travel as "ID:<hex32>" in the model's pairs (the scru128 text form is an oracle) *)
let model_print_id (i : n) : bytes = bytes_of_string ("ID:" ^ hex_of_n ~width:32 i)
let model_parse_id (b : bytes) : n option =
  let s = string_of_bytes b in
  if String.length s = 35 && String.sub s 0 3 = "ID:" then (try Some (n_of_hex (String.sub s 3 32)) with _ -> None) else None
let max_usize = n_of_hex "ffffffffffffffff"

let rec pairs_of = function
  | k :: v :: r -> (bytes_of_xhex k, bytes_of_xhex v) :: pairs_of r
  | _ -> []

let str_of_ro (o : ropts) =
  Printf.sprintf "ok follow=%s tail=%d last=%s limit=%s ctx=%s"
    (match o.ro_follow with FOff -> "off" | FOn -> "on" | FHeartbeat ms -> "hb:" ^ hex_of_n ms)
    (if o.ro_tail then 1 else 0)
    (match o.ro_last with Some i -> str_of_id i | None -> "-")
    (match o.ro_limit with Some i -> hex_of_n i | None -> "-")
    (match o.ro_ctx with Some i -> str_of_id i | None -> "-")

let run_codec () =
  List.iter (fun line ->
      let toks = List.filter (fun s -> s <> "") (String.split_on_char ' ' (String.trim line)) in
      let out = match toks with
        | ["ttl"; s] -> (match parse_ttl (bytes_of_xhex s) with Some t -> "ok " ^ str_of_ttl (Some t) | None -> "err")
        | "ttlp" :: ps -> (match ttl_of_pairs (pairs_of ps) with Some t -> "ok " ^ str_of_ttl (Some t) | None -> "err")
        | ["ttl2s"; t] -> (match ttl_of t with Some t -> xhex_of_bytes (ttl_to_string t) | None -> "?")
        | "ro" :: ps -> (match ro_of_pairs model_parse_id max_usize (pairs_of ps) with Some o -> str_of_ro o | None -> "err")
        | ["ro2p"; follow; tail; last; limit; ctx] ->
          let f = if follow = "off" then FOff else if follow = "on" then FOn
            else FHeartbeat (n_of_hex (String.sub follow 3 (String.length follow - 3))) in
          let o = { ro_follow = f; ro_tail = (tail = "1"); ro_last = opt id_of last; ro_limit = opt n_of_hex limit; ro_ctx = opt id_of ctx } in
          String.concat " " (List.concat_map (fun (k, v) -> [xhex_of_bytes k; xhex_of_bytes v]) (ro_to_pairs model_print_id o))
        | _ -> "?" in
      print_endline out) (read_lines ())

(* ---- json mode (Model/Json.v): serde_json text <-> Value, and the Frame codec ----
   the scru128 text form (25 base-36 digits, value < 2^128) is the id oracle of this mode *)
let limbs_of_hex (h : string) : int array =       (* 8 limbs of 16 bits, most significant first *)
  let h = String.make (32 - String.length h) '0' ^ h in
  Array.init 8 (fun k -> int_of_string ("0x" ^ String.sub h (4 * k) 4))
let hex_of_limbs (a : int array) : string = String.concat "" (Array.to_list (Array.map (Printf.sprintf "%04x") a))
let scru_print (i : n) : bytes =
  let a = limbs_of_hex (hex_of_n ~width:32 i) in
  let digits = Bytes.make 25 '0' in
  for pos = 24 downto 0 do
    let rem = ref 0 in
    for k = 0 to 7 do
      let cur = (!rem lsl 16) lor a.(k) in
      a.(k) <- cur / 36; rem := cur mod 36
    done;
    Bytes.set digits pos "0123456789abcdefghijklmnopqrstuvwxyz".[!rem]
  done;
  bytes_of_string (Bytes.to_string digits)
let scru_parse (b : bytes) : n option =
  let s = string_of_bytes b in
  if String.length s <> 25 then None
  else begin
    let a = Array.make 8 0 in
    let ok = ref true in
    String.iter (fun c ->
        let d = match c with
          | '0'..'9' -> Char.code c - 48 | 'a'..'z' -> Char.code c - 87 | 'A'..'Z' -> Char.code c - 55 | _ -> (ok := false; 0) in
        let carry = ref d in
        for k = 7 downto 0 do
          let cur = a.(k) * 36 + !carry in
          a.(k) <- cur land 0xffff; carry := cur lsr 16
        done;
        if !carry <> 0 then ok := false) s;
    if !ok then Some (n_of_hex (hex_of_limbs a)) else None
  end
(* ssri::Integrity oracle: one or more `<algo>-<base64>` entries; the tie only uses single sha256/sha512 entries *)
let hash_parse (b : bytes) : bytes option =
  let s = string_of_bytes b in
  (* ssri does not validate the digest at parse time: anything without whitespace or '?' is kept as it is *)
  let ok_b64 t = t <> "" && String.for_all (fun c -> match c with ' ' | '\t' | '\n' | '\r' | '?' -> false | _ -> true) t in
  if s = "" then Some b else      (* ssri parses the empty string as an Integrity without hashes and prints it back as "" *)
  match String.index_opt s '-' with
  | Some k when List.mem (String.sub s 0 k) ["sha256"; "sha512"; "sha384"; "sha1"] && ok_b64 (String.sub s (k + 1) (String.length s - k - 1)) -> Some b
  | _ -> None

let run_json () =
  List.iter (fun line ->
      match List.filter (fun s -> s <> "") (String.split_on_char ' ' (String.trim line)) with
      | ["J"; x] ->
        print_endline (match parse_json (bytes_of_xhex x) with
            | Some v -> "OK " ^ xhex_of_bytes (print_json (normalize v))
            | None -> "ERR")
      | ["F"; x] ->
        print_endline (match decode_frame scru_parse hash_parse (bytes_of_xhex x) with
            | Some f -> "OK " ^ xhex_of_bytes (encode_frame scru_print f)
            | None -> "ERR")
      | _ -> print_endline "?") (read_lines ())

(* ---- route mode (Model/Route.v): `<METHOD> <xhex raw path>` -> the route and what it carries ---- *)
let run_route () =
  List.iter (fun line ->
      match List.filter (fun s -> s <> "") (String.split_on_char ' ' (String.trim line)) with
      | [m; x] ->
        let meth = match m with "GET" -> MGet | "POST" -> MPost | "DELETE" -> MDelete | _ -> MOther in
        print_endline (match route_path meth (bytes_of_xhex x) with
            | PVersion -> "version" | PCat -> "cat" | PHead t -> "head " ^ xhex_of_bytes t
            | PCasGet h -> "casget " ^ xhex_of_bytes h | PCasPost -> "caspost" | PImport -> "import"
            | PItemGet t -> "get " ^ xhex_of_bytes t | PItemRemove t -> "remove " ^ xhex_of_bytes t
            | PAppend t -> "append " ^ xhex_of_bytes t | PNotFound -> "notfound")
      | _ -> print_endline "?") (read_lines ())

(* ---- service mode (Model/Service.v): command calls and generator lifecycles ---- *)
let print_eframe e =
  Printf.printf "E %s %s %s %s %s %s %s %d\n" (xhex_of_bytes e.e_topic) (str_of_id e.e_ctx) (str_of_id e.e_hid)
    (str_of_id e.e_fid) (str_of_ttl e.e_ttl) (str_of_optbytes e.e_content) (str_of_optbytes e.e_meta)
    (if e.e_err then 1 else 0)

let run_service () =
  let table = ref [] in
  List.iter (fun line ->
      let toks = List.filter (fun s -> s <> "") (String.split_on_char ' ' (String.trim line)) in
      match toks with
      | "CALL" :: rest ->
        let kv = kv_of rest in
        let c = { c_def = id_of (getk "def" kv); c_name = bytes_of_xhex (getk "name" kv);
                  c_suffix = bytes_of_xhex (getk "suffix" kv); c_ttl = ttl_of (getk "ttl" kv) } in
        let call = { sf_id = id_of (getk "call" kv); sf_ctx = id_of (getk "ctx" kv); sf_topic = []; sf_hid = None } in
        let rec apps = function
          | "A" :: topic :: meta :: ttl :: content :: r ->
            { oa_topic = bytes_of_xhex topic; oa_meta = opt bytes_of_xhex meta; oa_ttl = ttl_of ttl; oa_ctx = None;
              oa_content = bytes_of_xhex content } :: apps r
          | _ :: r -> apps r | [] -> [] in
        let rec vals = function "V" :: v :: r -> bytes_of_xhex v :: vals r | _ :: r -> vals r | [] -> [] in
        let res = if getk "res" kv = "ok" then CmdOk (apps rest, vals rest) else CmdErr (apps rest) in
        print_endline "CALLFRAMES"; List.iter print_eframe (call_frames c call res)
      | "GEN" :: rest ->
        let kv = kv_of rest in
        let g = { g_spawn = id_of (getk "spawn" kv); g_ctx = id_of (getk "ctx" kv); g_name = bytes_of_xhex (getk "name" kv) } in
        let runs = List.fold_left (fun acc t ->
            if t = "RUN" then [] :: acc
            else if String.length t > 2 && String.sub t 0 2 = "o=" then
              (match acc with cur :: r -> (bytes_of_xhex (String.sub t 2 (String.length t - 2)) :: cur) :: r | [] -> acc)
            else acc) [] rest in
        print_endline "LIFECYCLES"; List.iter print_eframe (lifecycles g (List.rev_map List.rev runs))
      | "DUPLEX" :: rest ->
        let kv = kv_of rest in
        let g = { g_spawn = id_of (getk "spawn" kv); g_ctx = id_of (getk "ctx" kv); g_name = bytes_of_xhex (getk "name" kv) } in
        let rec frames = function
          | "S" :: id :: ctx :: topic :: content :: r ->
            ({ sf_id = id_of id; sf_ctx = id_of ctx; sf_topic = bytes_of_xhex topic; sf_hid = None },
             (if content = "-" then [] else bytes_of_xhex content)) :: frames r
          | _ :: r -> frames r | [] -> [] in
        let fed = instance_input g (id_of (getk "start" kv)) (id_of (getk "stop" kv)) (frames rest) in
        print_endline (String.concat " " ("INPUT" :: List.map xhex_of_bytes fed))
      | ["EV"; "define"; id; ctx; name; valid] ->
        let f = { sf_id = id_of id; sf_ctx = id_of ctx; sf_topic = []; sf_hid = None } in
        let (t', a) = cserve_step !table (EDefine (f, bytes_of_xhex name, valid = "1")) in
        table := t';
        print_endline (match a with ADefError _ -> "ACTION deferror " ^ id | _ -> "ACTION none")
      | ["EV"; "call"; id; ctx; name] ->
        let f = { sf_id = id_of id; sf_ctx = id_of ctx; sf_topic = []; sf_hid = None } in
        let (t', a) = cserve_step !table (ECall (f, bytes_of_xhex name)) in
        table := t';
        print_endline (match a with ARun (d, _) -> "ACTION run " ^ str_of_id d ^ " " ^ id | _ -> "ACTION none " ^ id)
      | _ -> ()) (read_lines ())

(* ---- restart mode (Model/Restart.v): which registrations / spawns / definitions come back ---- *)
let run_restart by_ctx =
  let fs = List.filter_map (fun line ->
      match List.filter (fun s -> s <> "") (String.split_on_char ' ' (String.trim line)) with
      | ["R"; id; ctx; name; kind; rf] ->
        let k = match kind with
          | "register" -> KRegister | "unregister" -> KUnregister | "unregistered" -> KUnregistered
          | "spawn" -> KSpawn | "spawn.error" -> KSpawnError | "define" -> KDefine | _ -> KOther in
        Some { r_id = id_of id; r_ctx = id_of ctx; r_name = bytes_of_xhex name; r_kind = k; r_ref = opt id_of rf }
      | _ -> None) (read_lines ()) in
  let pr tag l = print_endline (String.concat " " (tag :: List.map (fun f -> str_of_id f.r_id) l)) in
  pr "handlers" (compact_handlers by_ctx fs); pr "spec_handlers" (spec_handlers fs);
  pr "generators" (compact_generators by_ctx fs); pr "spec_generators" (spec_generators fs);
  pr "commands" (compact_commands by_ctx fs); pr "spec_commands" (spec_commands fs)

(* `gen-sched <locked 0|1> <seed> <steps> <finish 0|1>`: stdin = configuration lines;
   stdout = schedule with expectations.
   `labels-sched <locked>`: stdin = configuration lines followed by "label idx" lines. *)
let () =
  match Array.to_list Sys.argv with
  | _ :: "seq" :: _ -> run_seq ()
  | [_; "http"; fixed] -> run_http (fixed = "1")
  | [_; "handler"] -> run_handler ()
  | [_; "codec"] -> run_codec ()
  | [_; "restart"; by_ctx] -> run_restart (by_ctx = "1")
  | [_; "service"] -> run_service ()
  | [_; "json"] -> run_json ()
  | [_; "route"] -> run_route ()
  | [_; "gen-sched"; locked; seed; steps; finish] ->
    let cfg = Schedgen.parse_cfg (read_lines ()) in
    List.iter print_endline
      (Schedgen.gen (locked = "1") cfg (int_of_string seed) (int_of_string steps) (finish = "1"))
  | [_; "labels-sched"; locked] ->
    let lines = read_lines () in
    let cfg = Schedgen.parse_cfg lines in
    let labels = List.filter_map (fun l ->
        match String.split_on_char ' ' (String.trim l) with
        | [name; i] when List.mem name ["enter"; "commit"; "bcast"; "release"; "poll"; "subscribe"; "start";
                                        "hist"; "live"; "consume"; "probe"; "burst"; "drain"] -> Some (name, int_of_string i)
        | _ -> None) lines in
    List.iter print_endline (Schedgen.of_labels (locked = "1") cfg labels)
  | _ -> prerr_endline "usage: xsmodel seq|http|gen-sched|labels-sched"; exit 2
