(* Driver for the extracted model (trusted glue). *)
open Xsmodel
open Driverlib

(* `seq`: stdin = trace; lines "OP ..." are executed, everything else is skipped;
   a line "NEW <now>" starts a fresh store.  Output per op:
     OP ...          echo
     = ...           observation of the concrete model (Model/Store.v)
     ~ ...           observation of the abstract spec  (Model/Spec.v)
     ! hyp           (only when the refinement hypotheses are violated by this op;
                      from then on the spec is not expected to agree) *)
let run_seq () =
  let s = ref (empty_store N0) in
  let a = ref (a_empty N0) in
  (try
     while true do
       let line = input_line stdin in
       let toks = String.split_on_char ' ' (String.trim line) in
       match toks with
       | "NEW" :: [now] ->
         s := empty_store (n_of_hex now); a := a_empty (n_of_hex now); print_endline line
       | "OP" :: rest ->
         let o = parse_op rest in
         let h = hyp_all !a o in
         let (ob, s') = step !s o in
         let (ab, a') = a_step !a o in
         s := s'; a := a';
         print_endline line;
         print_endline (str_of_obs ob);
         let sa = str_of_obs ab in
         print_endline ("~" ^ String.sub sa 1 (String.length sa - 1));
         if not h then print_endline "! hyp"
       | _ -> ()
     done
   with End_of_file -> ())

let read_lines () =
  let ls = ref [] in
  (try while true do ls := input_line stdin :: !ls done with End_of_file -> ());
  List.rev !ls

(* `gen-sched <locked 0|1> <seed> <steps> <finish 0|1>`: stdin = configuration lines;
   stdout = schedule with expectations.
   `labels-sched <locked>`: stdin = configuration lines followed by "label idx" lines. *)
let () =
  match Array.to_list Sys.argv with
  | _ :: "seq" :: _ -> run_seq ()
  | [_; "gen-sched"; locked; seed; steps; finish] ->
    let cfg = Schedgen.parse_cfg (read_lines ()) in
    List.iter print_endline
      (Schedgen.gen (locked = "1") cfg (int_of_string seed) (int_of_string steps) (finish = "1"))
  | [_; "labels-sched"; locked] ->
    let lines = read_lines () in
    let cfg = Schedgen.parse_cfg lines in
    let labels = List.filter_map (fun l ->
        match String.split_on_char ' ' (String.trim l) with
        | [name; i] when List.mem name ["enter"; "commit"; "bcast"; "release"; "poll"; "subscribe"; "start";
                                        "hist"; "live"; "consume"; "probe"] -> Some (name, int_of_string i)
        | _ -> None) lines in
    List.iter print_endline (Schedgen.of_labels (locked = "1") cfg labels)
  | _ -> prerr_endline "usage: xsmodel seq|gen-sched|labels-sched"; exit 2
